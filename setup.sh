#!/bin/sh
# Offline set-up: nothing to compile or install; sanity checks only.
set -e
cd "$(dirname "$0")"
mkdir -p evidence replays
PY="${VERIF_PYTHON:-/venv/bin/python}"
PYTHONPATH="${VERIF_REPO:-/repo}:$(pwd)" "$PY" -c "import propka, sim.worker, sim.c03; print('propka', propka.__file__)"
if setarch -R true 2>/dev/null; then echo "setarch -R: ok"; else echo "setarch -R unavailable: native-address arm runs with ASLR on (still sound, replays use recorded addresses)"; fi
