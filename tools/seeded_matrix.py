#!/venv/bin/python
"""Detection of every seeded change under several VERIF_SEED values.

  tools/seeded_matrix.py SEED [SEED ...]     -> seeded/MATRIX.json (merged)

Uses the quick checks without self-test and without minimisation (the verdict
is the same; only the report is shorter)."""
import json, os, shutil, subprocess, sys, tempfile
V = os.path.dirname(os.path.dirname(os.path.abspath(__file__)))
seeds = [int(s) for s in sys.argv[1:]] or [1, 2, 3]
ids = sorted(d for d in os.listdir(os.path.join(V, 'seeded')) if os.path.exists(os.path.join(V, 'seeded', d, 'patch.diff')))
mp = os.path.join(V, 'seeded', 'MATRIX.json')
matrix = json.load(open(mp)) if os.path.exists(mp) else {}
base = tempfile.mkdtemp(prefix='seedmx-')
try:
    for mid in ids:
        meta = json.load(open(os.path.join(V, 'seeded', mid, 'meta.json')))
        wt = os.path.join(base, mid)
        subprocess.run(['git', '-C', '/repo', 'worktree', 'add', '-q', '--detach', wt, 'HEAD'], check=True)
        try:
            subprocess.run(['git', '-C', wt, 'apply', os.path.join(V, 'seeded', mid, 'patch.diff')], check=True)
            for seed in seeds:
                out = os.path.join(base, 'out'); shutil.rmtree(out, ignore_errors=True); os.makedirs(out)
                env = dict(os.environ, VERIF_REPO=wt, VERIF_OUT=out, VERIF_SEED=str(seed))
                extra = ['--no-selftest', '--no-minimise'] if meta['property'] == 'C03' else []
                r = subprocess.run([os.path.join(V, 'check'), meta['property'], '--tier', 'quick'] + extra,
                                   env=env, capture_output=True, text=True)
                matrix.setdefault(mid, {})[str(seed)] = r.returncode
                print(mid, seed, r.returncode, flush=True)
                json.dump(matrix, open(mp, 'w'), indent=1, sort_keys=True)
        finally:
            subprocess.run(['git', '-C', '/repo', 'worktree', 'remove', '--force', wt])
finally:
    shutil.rmtree(base, ignore_errors=True)
    subprocess.run(['git', '-C', '/repo', 'worktree', 'prune'])
