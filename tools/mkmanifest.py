import json
NA = {
 'C01': "census of ionizable groups is a pure function of file content and options: no schedule, clock, fault or history in the statement (history facet is covered under C03, record-loss facet under C12)",
 'C02': "arithmetic identity between fields of one result and its rendering; pure function of one run",
 'C04': "metamorphic relation over rigid motions of the input; both sides are single runs, nothing for a simulator to schedule or fault",
 'C05': "metamorphic relation over unions of distant inputs; pure",
 'C06': "metamorphic relation over relabelling of chains/residue numbers; pure",
 'C07': "metamorphic relation over ignorable content and options; pure",
 'C08': "averaging identity over the conformations of one input; pure",
 'C09': "closed-form relation between pKa values, charge table and pI; pure",
 'C10': "closed-form relation between the two reported profiles and the grid; pure",
 'C11': "bond set equals an O(n^2) distance rule for any atom set; pure geometry",
 'C13': "equivalence of an option and a file edit; pure",
 'C14': "set relation between an option value and the report; pure",
 'C15': "differential between two settings of one switch on one input; a crash inside a temporary swap aborts the run and nothing survives it (any module-level survivor would show under C03's crash arm)",
 'C16': "sign/bound predicates on the numbers of one result; pure",
 'C17': "geometric predicates on constructed hydrogens; pure",
 'C18': "algebraic properties of parsed parameter tables; pure",
 'C19': "total function on strings of at most 5 characters; finite, a job for exhaustive enumeration, not for sampling schedules",
 'C20': "identity of a 3-vector function with Rodrigues' formula; pure",
}
import sys
with_c12 = len(sys.argv) > 1
m = {
 'version': 1,
 'setup_cmd': "sh ./setup.sh",
 'hooks': {
   'guard': 'PROPKA_VERIF',
   'enable': "no hook commits: every seam is a patchable Python attribute (Group.__hash__/__init__, io.open, propka.output.date, sys.settrace) or a process-launch parameter (PYTHONHASHSEED, setarch -R); checks import propka from /repo's working tree via PYTHONPATH",
   'baseline_off_cmd': "cd /repo && /venv/bin/python -m pytest -ra -q -p no:cacheprovider --timeout=900 --continue-on-collection-errors",
   'source_commits': [],
   'add_only': True,
 },
 'engines': [
   {'name': 'sim', 'path': 'sim/', 'serves_properties': ['C03', 'C12'] if with_c12 else ['C03'],
    'kind_free_text': "deterministic simulator for a single-threaded batch program: seeded histories of API/CLI calls in fresh worker processes with simulated object addresses, clock, cwd, I/O faults and crash points; fork-server reference interpreter; ddmin minimiser; replay files"},
 ],
 'checks': [
  {'property_id': 'C03',
   'quick_cmd': './check C03 --tier quick',
   'thorough_cmd': './check C03 --tier thorough',
   'evidence_file': 'evidence/C03.json',
   'replay_cmd_template': './check C03 --replay {path}',
   'engine': 'sim',
   'technique': "deterministic simulation with fault injection: seeded histories of calls under simulated addresses/clock/cwd, I/O faults and crash points, each call compared bit-exactly with a pristine-interpreter reference",
   'level_claimed': {'category': 'exploration',
      'text': "Seeded search over histories (sequences of run.single / pipeline / CLI calls and step-level API calls on several molecules interleaved by a seeded scheduler, with interleaved inputs, options and parameter files; crash sweeps aimed at in-flight process state), object-address layouts, hash seeds, working directories with decoy files, calendar dates, I/O faults and crashes at arbitrary propka lines. Every call's full observation record (groups, determinants, profiles, pI, hydrogens, .pka text minus date line) must equal, bit for bit, the record of the same content+options run alone in a pristine interpreter. A clean batch is evidence, not proof; the property quantifies over histories and schedules, which only sampling under a controlled simulator can reach.",
      'design_ref': 'DESIGN.md §3, §4, §12'},
   'level_note': "Differential oracle: the reference is the same code, so defects common to every execution are invisible. Simulated addresses are 16-byte aligned distinct values (any such layout is realisable by CPython); under simulated layouts builtins.id is served for propka objects by a simulated allocator that recycles dead objects' addresses (seeded); native-address runs are sampled and converted to recorded-address replays. The reference interpreter runs under the canonical hash seed 0 and a canonical address layout. The worker's hash seed, clock, working directory and process environment (HOME with decoy configuration files, TZ, LC_ALL, PROPKA_* variables, python -O) vary; the reference keeps canonical ones; the Python version and logging configuration are equal on both sides. Log output is not observed. No concurrent callers.",
  },
 ],
 'not_applicable': [{'property_id': k, 'reason': v} for k, v in sorted(NA.items())],
 'notes': "Technique family: deterministic simulation with fault injection. propka is a single-threaded batch program; 18 of 20 properties are pure functions of the input and are listed as not applicable (DESIGN.md §0, §6). Exit codes: 0 held, 1 VIOLATION, 2 harness error (never a pass).",
}
if with_c12:
    m['checks'].append(
  {'property_id': 'C12',
   'quick_cmd': './check C12 --tier quick',
   'thorough_cmd': './check C12 --tier thorough',
   'evidence_file': 'evidence/C12.json',
   'replay_cmd_template': './check C12 --replay {path}',
   'engine': 'sim',
   'technique': "fault injection at the reader seam: enumeration of storage/transport record-loss patterns (truncation, lost record, lost block, lost head, multiple losses) at every record boundary, checked against an executable reference model of the statement",
   'level_claimed': {'category': 'fault_enumeration',
      'text': "RESTRICTED SCOPE: C12 is decided only for the loss patterns a storage or transport fault produces at the reader seam - crash-truncation, one lost record, lost blocks, lost head at every record boundary, runs/windows/pairs of whole residues, partial residues, periodic loss (exhaustive per workload file) plus seeded multiple and random-rate losses (patterns F1-F13, DESIGN 12.6), every subset of the records of one small residue and seeded subsets of larger residues/ligands (F14), name-keyed systematic losses such as CA-only / backbone-only / OXT-stripped files (F15, F16), and different atoms lost from different conformations of a multi-conformation file (F17) - delivered as path, stream and CLI input; not for arbitrary atom subsets of the whole structure. Oracle: no surviving usable atom record => ValueError; otherwise the call completes; every amino-acid ionizable group whose defining atom survives is reported (for multi-conformation files: side-chain groups whose defining atom survives in any conformation). Failures that need earlier calls in the same process are replayed with that history and reported too.",
      'design_ref': 'DESIGN.md §5, §12.6'},
   'level_note': "Only ATOM/HETATM records are lost (TER/MODEL lines survive), so each faulted file is exactly a valid structure minus a subset of atoms. Torn records are excluded (malformed, not missing). Census clause covers amino-acid groups only and API deliveries only (the CLI summary omits penalised groups by design); expectations are the groups the complete file reports whose defining record (and, for a chain start made by a preceding OXT, that OXT) survives; ligand/ion groups are covered by the no-error clause. The census model reads the working tree's propka.cfg for group mapping and ignorable residues.",
  })

else:
    m['not_applicable'].append({'property_id': 'C12', 'reason': "check under construction in this commit; will be claimed with restricted scope (record-loss faults at the reader seam)"})
    m['not_applicable'].sort(key=lambda e: e['property_id'])
json.dump(m, open('/verif/MANIFEST.json', 'w'), indent=1)
