#!/venv/bin/python
"""Run the registered quick checks against seeded breakages.

  tools/seeded.py [id ...]        (default: every directory under seeded/)

For each seeded/<id>/patch.diff: make a scratch worktree of /repo HEAD outside
/repo and /verif, apply the patch, run the repository's test suite, run the
check of the property named in meta.json against that tree (VERIF_REPO), write
seeded/<id>/result.json, remove the worktree.  Evidence and replay files of
these runs go to a scratch directory, never to /verif/evidence.
"""
import json, os, shutil, subprocess, sys, tempfile, time

VERIF = os.path.dirname(os.path.dirname(os.path.abspath(__file__)))
REPO = '/repo'


def main():
    ids = sys.argv[1:] or sorted(d for d in os.listdir(os.path.join(VERIF, 'seeded'))
                                 if os.path.exists(os.path.join(VERIF, 'seeded', d, 'patch.diff')))
    base = tempfile.mkdtemp(prefix='seedrun-')
    summary = []
    try:
        for mid in ids:
            sd = os.path.join(VERIF, 'seeded', mid)
            meta = json.load(open(os.path.join(sd, 'meta.json')))
            wt = os.path.join(base, mid)
            subprocess.run(['git', '-C', REPO, 'worktree', 'add', '-q', '--detach', wt, 'HEAD'], check=True)
            try:
                subprocess.run(['git', '-C', wt, 'apply', os.path.join(sd, 'patch.diff')], check=True)
                t0 = time.time()
                tests = None
                if not os.environ.get('SEEDED_SKIP_TESTS'):
                    r = subprocess.run(['/venv/bin/python', '-m', 'pytest', '-q', '-p', 'no:cacheprovider',
                                        '--timeout=900', '-x'], cwd=wt, capture_output=True, text=True)
                    tests = {'exit': r.returncode, 'tail': r.stdout.strip().splitlines()[-1:]}
                out = os.path.join(base, 'out-' + mid)
                os.makedirs(out)
                env = dict(os.environ, VERIF_REPO=wt, VERIF_OUT=out)
                extra = os.environ.get('SEEDED_CHECK_ARGS', '').split()
                r = subprocess.run([os.path.join(VERIF, 'check'), meta['property'], '--tier', 'quick'] + extra,
                                   env=env, capture_output=True, text=True)
                lines = [l for l in r.stdout.splitlines() if l.startswith(('VIOLATION', 'KNOWN-FINDING', 'HARNESS-ERROR'))
                         or l.startswith('  ')]
                res = {'id': mid, 'property': meta['property'], 'tests': tests, 'check_exit': r.returncode,
                       'detected': r.returncode == 1, 'report': lines[:24], 'wall_s': round(time.time() - t0, 1),
                       'repo_head': subprocess.run(['git', '-C', REPO, 'rev-parse', '--short', 'HEAD'],
                                                   capture_output=True, text=True).stdout.strip(),
                       'check_cmd': './check %s --tier quick %s (VERIF_REPO=<worktree with patch applied>)' % (
                           meta['property'], ' '.join(extra))}
                rj = os.path.join(sd, 'result.json')
                if tests is None and os.environ.get('SEEDED_REUSE_TESTS') and os.path.exists(rj):
                    # the patch is unchanged: keep the recorded suite result, refresh the check result
                    res['tests'] = tests = json.load(open(rj)).get('tests')
                if tests is not None:      # ad-hoc runs (no test suite) do not replace the record
                    json.dump(res, open(rj, 'w'), indent=1)
                summary.append((mid, tests and tests['exit'], r.returncode))
                print('%-34s tests_exit=%s check_exit=%s %s' % (mid, tests and tests['exit'], r.returncode,
                                                             (lines[:1] or [''])[0][:110]), flush=True)
                if r.returncode == 2:
                    print(r.stdout[-1500:])
            finally:
                subprocess.run(['git', '-C', REPO, 'worktree', 'remove', '--force', wt])
    finally:
        shutil.rmtree(base, ignore_errors=True)
        subprocess.run(['git', '-C', REPO, 'worktree', 'prune'])
    return 0


if __name__ == '__main__':
    sys.exit(main())
