#!/bin/sh
# tools/adopt_mutant.sh <worktree> <seeded-id> <property> "<needs>"
# Confirms a sub-agent's seeded change (suite passes with it, demo fails with it
# and passes without it) and stores it under seeded/<id>/.
wt="$1"; id="$2"; prop="$3"; needs="$4"
set -e
cd "$wt"
git checkout -q -- . ; git apply patch.diff
echo "== propka imported from: $(/venv/bin/python -c 'import propka; print(propka.__file__)')"
echo "== test suite with change"; /venv/bin/python -m pytest -q -p no:cacheprovider --timeout=900 2>&1 | tail -1 | tee /tmp/adopt_tests.txt
set +e
echo "== demo with change"; /venv/bin/python demo.py > /tmp/adopt_with.txt 2>&1; with=$?; tail -3 /tmp/adopt_with.txt; echo "exit=$with"
git apply -R patch.diff
echo "== demo without change"; /venv/bin/python demo.py > /tmp/adopt_without.txt 2>&1; without=$?; tail -2 /tmp/adopt_without.txt; echo "exit=$without"
git apply patch.diff
d=/verif/seeded/$id; mkdir -p "$d"; cp patch.diff demo.py "$d"/
/venv/bin/python - "$d" "$id" "$prop" "$needs" "$with" "$without" <<'PY'
import json,sys
d,i,p,needs,w,wo=sys.argv[1:7]
json.dump({'id':i,'property':p,'origin':'independent sub-agent given only the property text and a scratch worktree',
 'needs':needs,'confirmed':{'suite_with_change':open('/tmp/adopt_tests.txt').read().strip(),
 'demo_exit_with_change':int(w),'demo_exit_without_change':int(wo),
 'ran':'pytest -q -p no:cacheprovider --timeout=900 in the worktree with the patch; demo.py with the patch and after git apply -R'}},
 open(d+'/meta.json','w'),indent=1)
PY
echo "adopted $id (with=$with without=$without)"
