"""Executable reference model of C12 (DESIGN §5) and the record-loss fault
patterns.  Does not import propka; reads the working tree's propka.cfg.
"""
import os
import string

ATOM_TAGS = ('ATOM  ', 'HETATM')
IONIZABLE_TYPES = {'COO', 'HIS', 'CYS', 'TYR', 'LYS', 'ARG'}
NUCLEIC = ('DA ', 'DC ', 'DG ', 'DT ')


class Cfg:
    def __init__(self, repo):
        self.ignore = set()
        self.mapping = {}
        path = os.path.join(repo, 'propka', 'propka.cfg')
        with open(path) as fh:
            for line in fh:
                line = line.split('#')[0]
                w = line.split()
                if not w:
                    continue
                if w[0] == 'ignore_residues' and len(w) > 1:
                    self.ignore.add(w[1])
                elif w[0] == 'protein_group_mapping' and len(w) > 2:
                    self.mapping[w[1]] = w[2]


def split_records(text):
    """-> list of (is_atom_record, line) keeping every line."""
    out = []
    for line in text.splitlines():
        out.append((line[0:6] in ATOM_TAGS, line))
    return out


def atom_indices(recs):
    return [i for i, (a, _) in enumerate(recs) if a]


def element_of(line):
    name = line[12:16].strip()
    el = line[12:14].strip().strip(string.digits)
    if len(name) == 4 and el:
        el = el[0]
    return el


def is_hydrogen(line):
    return element_of(line).upper() == 'H'


def usable_records(recs, cfg, keep_protons):
    """Records the reader keeps (first clause of the oracle)."""
    n = 0
    for is_atom, line in recs:
        if not is_atom:
            continue
        if line[17:20] in cfg.ignore:
            continue
        if is_hydrogen(line) and not keep_protons:
            continue
        n += 1
    return n


def _label(rtype, line):
    chain = line[21].strip() or '_'
    return '{0:<3s}{1:>4d}{2:>2s}'.format(rtype, int(line[22:26]), chain)


def census(recs, cfg):
    """Ionizable groups of a structure per the statement of C01/C12, as
    [(label, index of defining record)].  Amino-acid groups only."""
    out = []
    expect_start = True      # the next ATOM residue starts a chain
    start_res = None
    start_deps = []          # records the chain-start status itself depends on
    cur_res = None
    cur_has_oxt = False
    cur_oxt = []
    hard_start = True        # start of file/model or after TER (not merely after an OXT)
    for i, (is_atom, line) in enumerate(recs):
        tag = line[0:6]
        if not is_atom:
            if tag.strip() in ('TER', 'MODEL'):
                expect_start = True
                hard_start = True
                cur_res = None
                cur_has_oxt = False
                cur_oxt = []
            continue
        if tag != 'ATOM  ' or line[17:20] in NUCLEIC or line[17:20] in cfg.ignore:
            continue
        res = (line[21], line[22:26], line[26], line[17:20])
        if res != cur_res:
            soft = []
            if cur_has_oxt:
                expect_start = True
                soft = list(cur_oxt)
            cur_res = res
            cur_has_oxt = False
            cur_oxt = []
            if expect_start:
                start_res = res
                # a chain start that is one only because the previous residue
                # carries a terminal oxygen stays one only while that oxygen does
                start_deps = [] if hard_start else soft
                expect_start = False
                hard_start = False
            else:
                start_res = None
        name = line[12:16].strip()
        if is_hydrogen(line):
            continue
        if name == 'N' and start_res == res:
            out.append((_label('N+', line), i, list(start_deps)))
        if name in ('OXT', "O''"):
            out.append((_label('C-', line), i))
            cur_has_oxt = True
            cur_oxt.append(i)
        key = '{0}-{1}'.format(line[17:20], name)
        if cfg.mapping.get(key) in IONIZABLE_TYPES:
            out.append((_label(line[17:20], line), i))
    # uniform shape: (label, defining record, records its status depends on)
    return [t if len(t) == 3 else (t[0], t[1], []) for t in out]


def multi_conformation(recs):
    for is_atom, line in recs:
        if is_atom and line[16] != ' ':
            return True
        if not is_atom and line.startswith('MODEL'):
            return True
    return False


# ------------------------------------------------------------------ faults

def apply_fault(recs, fault):
    """Returns the list of surviving record indices (into recs).  Only
    ATOM/HETATM records are ever lost."""
    atoms = atom_indices(recs)
    kind = fault[0]
    lost = set()
    if kind == 'F1':            # crash of the writer / interrupted transfer
        lost = set(atoms[fault[1]:])
    elif kind == 'F2':          # one lost record
        lost = {atoms[fault[1]]}
    elif kind == 'F3':          # one lost block
        lost = set(atoms[fault[1]:fault[1] + fault[2]])
    elif kind == 'F4':          # lost head (reader attached late)
        lost = set(atoms[:fault[1]])
    elif kind == 'F5':          # several independent losses
        for k, ln in fault[1]:
            lost.update(atoms[k:k + ln])
    elif kind == 'F6':          # lost run of whole residues (records a..b-1)
        lost = set(atoms[fault[1]:fault[2]])
    elif kind == 'F7':          # only a window of whole residues survives
        lost = set(atoms[:fault[1]]) | set(atoms[fault[2]:])
    elif kind in ('F10', 'F17'):  # two single records lost (F17: in different halves of a multi-conformation file)
        lost = {atoms[fault[1]], atoms[fault[2]]}
    elif kind == 'F11':         # two whole residues lost (records a..b-1 and c..d-1)
        lost = set(atoms[fault[1]:fault[2]]) | set(atoms[fault[3]:fault[4]])
    elif kind in ('F12', 'F13'):  # tail / head of one residue lost (records a..b-1)
        lost = set(atoms[fault[1]:fault[2]])
    elif kind == 'F8':          # periodic loss: every p-th block of b records (phase q)
        _, b, per, q = fault
        lost = set(a for n, a in enumerate(atoms) if (n // b) % per == q)
    elif kind == 'F9':          # independent loss of each record with rate p (seeded)
        import random as _r
        rr = _r.Random(fault[2])
        lost = set(a for a in atoms if rr.random() < fault[1])
    elif kind == 'F14':         # any subset of the records of one residue (starts at a, bit mask)
        _, a, mask = fault
        lost = set(atoms[a + k] for k in range(mask.bit_length()) if mask >> k & 1)
    elif kind == 'F15':         # every record with one of the given atom names lost, file-wide
        names = set(fault[1])
        lost = set(a for a in atoms if recs[a][1][12:16].strip() in names)
    elif kind == 'F16':         # only records with the given atom names survive (CA-only, backbone-only ...)
        names = set(fault[1])
        lost = set(a for a in atoms if recs[a][1][12:16].strip() not in names)
    elif kind == 'F0':
        lost = set()
    else:
        raise ValueError(kind)
    return [i for i in range(len(recs)) if i not in lost], lost


def render(recs, keep):
    return ''.join(recs[i][1] + '\n' for i in keep)


def residue_bounds(recs):
    """Positions (in atom-record numbering) where a new residue starts, plus
    the end."""
    bounds = []
    last = None
    n = 0
    for is_atom, line in recs:
        if not is_atom:
            last = None      # a TER/MODEL line also separates residues
            continue
        key = (line[0:6], line[17:27])
        if key != last:
            bounds.append(n)
            last = key
        n += 1
    bounds.append(n)
    return bounds


SURVIVOR_SETS = (['CA'], ['N', 'CA', 'C'], ['N', 'CA', 'C', 'O'], ['N', 'CA', 'C', 'O', 'OXT'],
                 ['N', 'CA', 'C', 'O', 'CB'], ['N', 'CA', 'C', 'O', 'OXT', 'CB'], ['CA', 'CB'])


def name_faults(recs, tier, rng):
    """F15/F16: systematic, name-keyed losses (a filter or converter upstream
    that drops every record of some atom names: stripped OXT, CA-only and
    backbone-only models, side chains without backbone)."""
    atoms = atom_indices(recs)
    names = sorted(set(recs[a][1][12:16].strip() for a in atoms))
    out = [('F15', [n]) for n in names]
    pairs = [('F15', [a, b]) for i, a in enumerate(names) for b in names[i + 1:]]
    if tier.get('f15') == 'all':
        out += pairs
    elif tier.get('f15'):
        out += rng.sample(pairs, min(len(pairs), tier['f15']))
    bb = ['N', 'CA', 'C', 'O', 'OXT']
    out += [('F15', sorted(set(c))) for c in (bb, bb[:4], ['N', 'CA', 'C'], ['C', 'O', 'OXT'], ['N', 'C'],
                                               ['CA', 'CB'], ['O', 'OXT'], ['N', 'O'])]
    have = set(names)
    for sv in SURVIVOR_SETS:
        if have & set(sv):
            out.append(('F16', list(sv)))
    return out


def cross_conformation_faults(recs, tier, rng):
    """F17: one record lost in the first half and one in the second half of a
    multi-conformation file - different atoms missing from different
    conformations while the record counts stay equal."""
    n = len(atom_indices(recs))
    out = set()
    want = min(tier.get('f17', 0), (n // 2) * (n - n // 2))
    while len(out) < want:
        out.add(('F17', rng.randrange(n // 2), rng.randrange(n // 2, n)))
    return sorted(out)


def subset_faults(recs, tier, rng, bounds):
    """F14: subsets of the records of ONE residue.  Exhaustive (every one of
    the 2^n - 2 proper non-empty subsets) for residues of at most
    tier['f14_exh'] records, a seeded sample of tier['f14'] masks otherwise."""
    out = []
    res = [(bounds[i], bounds[i + 1]) for i in range(len(bounds) - 1)]
    exh = tier.get('f14_exh', 0)
    for a, b in res:
        n = b - a
        if n < 2:
            continue
        total = (1 << n) - 2
        if n <= exh:
            out += [('F14', a, m) for m in range(1, total + 1)]
        elif tier.get('f14'):
            k = min(total, tier['f14'])
            seen = set()
            while len(seen) < k:
                seen.add(rng.randrange(1, total + 1))
            out += [('F14', a, m) for m in sorted(seen)]
    return out


def enumerate_faults(natoms, tier, rng, bounds=None):
    """All fault descriptors for a file with natoms records."""
    out = []
    if bounds:
        runs = [('F6', bounds[i], bounds[j]) for i in range(len(bounds))
                for j in range(i + 1, len(bounds)) if bounds[j] - bounds[i] < natoms]
        wins = [('F7', bounds[i], bounds[j]) for i in range(len(bounds))
                for j in range(i + 1, len(bounds)) if bounds[j] - bounds[i] < natoms]
        res = [(bounds[i], bounds[i + 1]) for i in range(len(bounds) - 1)]
        if tier.get('f12', True):
            for a, b in res:
                for k in range(a + 1, b):
                    out.append(('F12', k, b))      # keep the first k-a atoms of the residue
                    out.append(('F13', a, k))      # lose the first k-a atoms of the residue
        pairs = [('F11', a[0], a[1], b[0], b[1]) for i, a in enumerate(res) for b in res[i + 1:]]
        if tier.get('f11') == 'all':
            out += pairs
        elif tier.get('f11'):
            out += rng.sample(pairs, min(len(pairs), tier['f11']))
        if tier['f6'] == 'all':
            out += runs + wins
        else:
            out += rng.sample(runs, min(len(runs), tier['f6']))
            out += rng.sample(wins, min(len(wins), tier['f6']))
    for b in (1, 2, 4, 8):
        for per in (2, 3, 5):
            for q in range(per):
                if natoms > b * per:
                    out.append(('F8', b, per, q))
    for _ in range(tier.get('f9', 0)):
        out.append(('F9', rng.choice((0.02, 0.05, 0.1, 0.3, 0.6, 0.9)), rng.randrange(1 << 30)))
    near = [('F10', a, b) for a in range(natoms) for b in range(a + 1, min(natoms, a + 13))]
    if tier.get('f10') == 'all':
        out += near
    elif tier.get('f10'):
        out += rng.sample(near, min(len(near), tier['f10']))
    for k in range(natoms):
        out.append(('F1', k))
    for k in range(natoms):
        out.append(('F2', k))
    for k in range(1, natoms):
        out.append(('F4', k))
    f3 = [('F3', k, ln) for ln in range(2, 17) for k in range(0, natoms - ln + 1)]
    if tier['f3'] == 'all':
        out += f3
    else:
        out += rng.sample(f3, min(len(f3), tier['f3']))
    for _ in range(tier['f5']):
        nl = rng.choice((2, 2, 3))
        losses = sorted((rng.randrange(natoms), rng.choice((1, 1, 2, 3, 5, 9)))
                        for _ in range(nl))
        out.append(('F5', losses))
    return out


def residue_states(recs, lost):
    """(resname, surviving atom names) of residues that lost some but not
    all of their atoms: the measure of which guards a case exercises."""
    by_res = {}
    for i, (is_atom, line) in enumerate(recs):
        if not is_atom:
            continue
        res = (line[0:6], line[21], line[22:27], line[17:20])
        by_res.setdefault(res, []).append((i, line[12:16].strip()))
    states = []
    for res, atoms in by_res.items():
        gone = [n for i, n in atoms if i in lost]
        if gone and len(gone) < len(atoms):
            states.append((res[3], tuple(sorted(n for i, n in atoms if i not in lost))))
    return states


# ------------------------------------------------------------------ judging

def judge(outcome, expect_error, expected_labels):
    """outcome: {'exc': [type, msg]} or {'labels': [...]}.
    Returns None or a failure dict."""
    if expect_error:
        if 'exc' not in outcome:
            return {'kind': 'accepted-empty', 'detail': 'input without usable atom records was accepted'}
        if outcome['exc'][0] != 'ValueError':
            return {'kind': 'wrong-rejection', 'exc': outcome['exc'][0],
                    'detail': '%s: %s' % tuple(outcome['exc'])}
        return None
    if 'exc' in outcome:
        return {'kind': 'exception', 'exc': outcome['exc'][0], 'where': outcome.get('where'),
                'detail': '%s: %s' % tuple(outcome['exc'])}
    if expected_labels is not None:
        have = set(outcome['labels'])
        missing = [l for l in expected_labels if l not in have]
        if missing:
            return {'kind': 'missing-group', 'label': missing[0], 'detail':
                    'group %r has its defining atom but is not reported' % missing[0]}
    return None


def failure_signature(f):
    if f['kind'] in ('exception', 'wrong-rejection'):
        return [f['kind'], f['exc'], f.get('where')]
    if f['kind'] == 'missing-group':
        return [f['kind'], f['label'][:3].strip()]
    return [f['kind']]
