"""C12 check (restricted scope): record-loss faults at the reader seam.

  python -m sim.c12 --tier quick|thorough
  python -m sim.c12 --replay FILE
"""
import argparse
import json
import os
import random
import subprocess
import sys
import time

from . import driver, workload
from . import c12_model as M

PID = 'C12'

TIERS = {
    'quick': {'multiconf_rich': 1, 'f17': 250, 'ter_files': 4, 'f14_exh': 5, 'f14': 24, 'f15': 30, 'big_thin': 4, 'files': 24, 'multiconf': 6, 'f3': 80, 'f5': 40, 'f6': 'all', 'f9': 40, 'f10': 80, 'f11': 'all', 'opt_every': 3,
              'chunk': 160, 'max_min': 3},
    'thorough': {'multiconf_rich': 3, 'f17': 3000, 'ter_files': 12, 'f14_exh': 8, 'f14': 250, 'f15': 'all', 'files': 64, 'multiconf': 14, 'f3': 'all', 'f5': 300, 'f6': 'all', 'f9': 400, 'f10': 'all', 'f11': 'all', 'opt_every': 1,
                 'chunk': 400, 'max_min': 5, 'full': 260, 'full_partial': 'all'},
}
OPTION_SETS = ([], ['--protonate-all'], ['-k'])
DELIVERIES = ('path', 'stream', 'cli')


def run_chunk(job, sc, timeout=900):
    job = dict(job)
    job['scratch'] = sc.worker_dir()
    job['timeout'] = timeout
    jobpath = job['scratch'] + '.job'
    with open(jobpath, 'w') as fh:
        json.dump(job, fh)
    cmd = [driver.PY, '-m', 'sim.c12_worker', jobpath]
    try:
        try:
            r = subprocess.run(cmd, stdin=subprocess.DEVNULL, stdout=subprocess.DEVNULL,
                               stderr=subprocess.PIPE, text=True, errors='replace',
                               env=driver.worker_env(0, sc), timeout=timeout + 30, cwd='/')
        except subprocess.TimeoutExpired:
            return {'harness_error': 'C12 worker timeout'}
        if r.returncode != 0 or not os.path.exists(jobpath + '.out'):
            return {'harness_error': 'C12 worker exit %s\n%s' % (r.returncode, r.stderr[-3000:])}
        with open(jobpath + '.out') as fh:
            return json.load(fh)
    finally:
        for p in (jobpath, jobpath + '.out'):
            try:
                os.unlink(p)
            except OSError:
                pass


def choose_files(wl, tier, cfg):
    """Deterministic choice covering every protein group type, both termini,
    second chains, disulfides, ligand fragments and ions first."""
    single, multi = [], []
    for inp in wl['inputs']:
        if inp['tags'][0] in ('crlf', 'bter', 'cbt', 'bom', 'h36'):
            continue   # non-standard record formatting is not a loss pattern
        recs = M.split_records(inp['text'])
        n = len(M.atom_indices(recs))
        if n < 8 or n > 300:
            continue
        (multi if M.multi_conformation(recs) else single).append((inp, recs, n))
    wanted = ['ASP', 'GLU', 'HIS', 'CYS', 'TYR', 'LYS', 'ARG', 'N+ ', 'C- ']
    chosen = []
    covered = {}

    def feats(inp, recs):
        f = set(t[0][:3] for t in M.census(recs, cfg))
        text = inp['text']
        for het in ('MTX', 'KNI', ' ZN', ' CA', ' CL'):
            if ('HETATM' in text) and (het + ' ') in text:
                f.add('het:' + het.strip())
        chains = set(l[21] for a, l in recs if a)
        if len(chains) > 1:
            f.add('two-chains')
        return f
    pool = [(inp, recs, n, feats(inp, recs)) for inp, recs, n in single]
    prio = ['hpx_asp25', 'hpx_kni', 'ftj_glu', 'ftj_zn', 'dfr_mtxa', 'dfr_ca', 'dfr_cl',
            'sgb_nti', 'sgb_ss0', 'hpx_ct0', 'sgb_ct1', 's140', 'dfr_ct0', 'sgb_ss1']
    by_id = {p[0]['id']: p for p in pool}
    for fam in prio:
        p = by_id.get(fam + '.base')
        if p and len(chosen) < tier['files']:
            chosen.append(p)
    # then greedily by new features, then by stride for variety
    rest = [p for p in pool if p not in chosen]
    rest.sort(key=lambda p: (p[2], p[0]['id']))
    for p in rest:
        if len(chosen) >= tier['files']:
            break
        new = p[3] - set().union(*[c[3] for c in chosen]) if chosen else p[3]
        if new:
            chosen.append(p)
    stride = max(1, len(rest) // max(1, tier['files'] - len(chosen)))
    for p in rest[::stride]:
        if len(chosen) >= tier['files']:
            break
        if p not in chosen:
            chosen.append(p)
    multis = sorted(multi, key=lambda p: (p[2], p[0]['id']))[:tier['multiconf']]
    # plus the MODEL ensembles richest in ionizable groups (the small files
    # above carry one to three groups each)
    rich = sorted((p for p in multi if p not in multis and 'MODEL' in p[0]['text']),
                  key=lambda p: (-len(M.census(p[1], cfg)), p[0]['id']))
    multis += rich[:tier.get('multiconf_rich', 0)]
    return chosen, multis


REJECTION_CASES = [
    ('x.dat', True), ('x', True), ('x.pdb.gz', True), ('x.ent', True), ('x.PDB', False),
]


def informative_ter(text):
    """The workload fragments carry bare TER cards; deposited files carry the
    full card (serial, residue name, chain, number).  Returns the text with
    every bare TER replaced by the full card of the preceding record, or None
    if no chain follows a TER (nothing would depend on the card)."""
    out, prev, used, lines = [], None, False, text.splitlines()
    for k, line in enumerate(lines):
        if line.strip() == 'TER' and prev is not None:
            try:
                serial = int(prev[6:11]) + 1
            except ValueError:
                serial = 0
            out.append('TER   %5d      %s %s%s%s' % (serial % 100000, prev[17:20], prev[21], prev[22:26], prev[26:27]))
            if any(l[0:6] in M.ATOM_TAGS for l in lines[k + 1:]):
                used = True
            continue
        if line[0:6] in M.ATOM_TAGS:
            prev = line
        out.append(line)
    return '\n'.join(out) + '\n' if used else None


def build_jobs(base, wl, tier, cfg, log):
    rng = random.Random(base * 7919 + 12)
    rng14 = random.Random(base * 7919 + 14)     # F14-F16 draw from their own stream
    chosen, multis = choose_files(wl, tier, cfg)
    files = {}
    cases = []
    exhaustive = {}
    full_ids = []
    # files that get a full-TER-card twin: those in which a protein chain
    # follows a TER first, then those in which anything does
    def _ter_rank(inp):
        starts, fresh = [], True
        for l in inp['text'].splitlines():
            if l[0:6] in M.ATOM_TAGS:
                if fresh and l.startswith('ATOM  '):
                    starts.append(l[22:26])
                fresh = False
            elif l.startswith('TER'):
                fresh = True
        return 0 if len(set(starts)) > 1 else (1 if len(starts) > 1 else 2)
    cands = sorted((c[0] for c in chosen if informative_ter(c[0]['text']) is not None),
                   key=lambda i: (_ter_rank(i), i['id']))
    ter_ids = set(i['id'] for i in cands[:tier.get('ter_files', 0)])
    for inp, recs, n, _ in [(c[0], c[1], c[2], None) for c in chosen] + \
            [(m[0], m[1], m[2], None) for m in multis]:
        fid = inp['id']
        # multi-conformation files take part in the census too: a group is
        # expected iff every record that defines it (in any conformation)
        # survives and the complete file reports it (base pass)
        files[fid] = {'text': inp['text'], 'stem': inp['stem'], 'census': True,
                      'multiconf': M.multi_conformation(recs)}
        faults = M.enumerate_faults(n, tier, rng, M.residue_bounds(recs))
        faults += M.subset_faults(recs, tier, rng14, M.residue_bounds(recs))
        faults += M.name_faults(recs, tier, rng14)
        if files[fid]['multiconf']:
            faults += M.cross_conformation_faults(recs, tier, rng14)
        exhaustive[fid] = {'records': n, 'F1': True, 'F2': True, 'F4': True,
                           'F3': tier['f3'] == 'all', 'F6': tier['f6'] == 'all',
                           'F7': tier['f6'] == 'all',
                           'F14': 'every subset of every residue of at most %d records; %d seeded subsets of each '
                                  'larger residue' % (tier.get('f14_exh', 0), tier.get('f14', 0)),
                           'F15': 'every atom name' + (', every pair of names' if tier.get('f15') == 'all'
                                                       else ', %d seeded pairs' % tier.get('f15', 0)),
                           'F16': True}
        for k, fault in enumerate(faults):
            opt_i = 0
            if (k % tier['opt_every']) == 0:
                opt_i = (k // tier['opt_every']) % 3
            cases.append([fid, list(fault), DELIVERIES[k % 3], OPTION_SETS[opt_i]])
        # the unfaulted file itself (base sanity: the model must agree with it)
        for d in DELIVERIES:
            cases.append([fid, ['F0'], d, []])
        # the same file with full TER cards (as deposited files have them):
        # boundary-related losses only
        tt = informative_ter(inp['text']) if not files[fid]['multiconf'] else None
        if tt is not None and fid in ter_ids:
            fid2 = fid + '+ter'
            files[fid2] = {'text': tt, 'stem': inp['stem'], 'census': True, 'multiconf': False}
            fl = [f for f in faults if f[0] in ('F1', 'F4', 'F6', 'F7', 'F11', 'F12', 'F13')]
            exhaustive[fid2] = {'records': n, 'full_TER_cards': True, 'F1': True, 'F4': True, 'F6': True,
                                'F7': True, 'F11': True, 'F12': True, 'F13': True}
            for k, fault in enumerate(fl):
                cases.append([fid2, list(fault), DELIVERIES[k % 3], OPTION_SETS[k % 3 if k % 5 == 0 else 0]])
            cases.append([fid2, ['F0'], 'stream', []])
    # large fragments (groups that count as buried): single lost records and
    # partial residues only, to bound the cost
    big_tier = {'f3': 0, 'f5': 0, 'f6': 0, 'f9': 0, 'f10': 0, 'f11': 0}
    for inp in wl['inputs']:
        if inp['id'] in ('ftj_sys3.base', 'hpx_core.base'):
            recs = M.split_records(inp['text'])
            n = len(M.atom_indices(recs))
            fid = inp['id']
            files[fid] = {'text': inp['text'], 'stem': inp['stem'], 'census': True}
            fl = [f for f in M.enumerate_faults(n, big_tier, rng, M.residue_bounds(recs))
                  if f[0] in ('F2', 'F12', 'F13')]
            thin = tier.get('big_thin', 1)
            if thin > 1:    # quick: every tail loss, a quarter of the head and single-record losses
                fl = [f for k, f in enumerate(fl) if f[0] == 'F12' or k % thin == 0]
            exhaustive[fid] = {'records': n, 'F12': True, 'F2': thin == 1, 'F13': thin == 1,
                               'others': False}
            for k, fault in enumerate(fl):
                cases.append([fid, list(fault), DELIVERIES[k % 3], OPTION_SETS[k % 3 if k % 7 == 0 else 0]])
            full_ids.append(fid)
    # thorough: the complete regression structures, losses at residue boundaries
    if tier.get('full'):
        for inp in workload.full_structures(driver.REPO):
            recs = M.split_records(inp['text'])
            n = len(M.atom_indices(recs))
            if n < 500:
                continue
            fid = inp['id']
            files[fid] = {'text': inp['text'], 'stem': inp['stem'],
                          'census': True}
            b = M.residue_bounds(recs)
            fl = [('F1', k) for k in b[1:-1]] + [('F4', k) for k in b[1:-1]]
            pairs = [(b[i], b[j]) for i in range(len(b)) for j in range(i + 1, len(b))
                     if b[j] - b[i] < n]
            fl = rng.sample(fl, min(len(fl), tier['full']))
            fl += [('F6', a, c) for a, c in rng.sample(pairs, min(len(pairs), tier['full']))]
            fl += [('F7', a, c) for a, c in rng.sample(pairs, min(len(pairs), tier['full'] // 2))]
            fl += [('F2', rng.randrange(n)) for _ in range(tier['full'])]
            fl += [('F3', rng.randrange(n - 20), rng.randrange(2, 17)) for _ in range(tier['full'] // 2)]
            bb = M.residue_bounds(recs)
            part = [('F12', k, e) for a, e in zip(bb, bb[1:]) for k in range(a + 1, e)]
            part += [('F13', a, k) for a, e in zip(bb, bb[1:]) for k in range(a + 1, e)]
            fl += part if tier.get('full_partial') == 'all' else rng.sample(part, min(len(part), 4 * tier['full']))
            exhaustive[fid] = {'records': n, 'sampled': True}
            for k, fault in enumerate(fl):
                cases.append([fid, list(fault), DELIVERIES[k % 3], OPTION_SETS[k % 3 if k % 5 == 0 else 0]])
            full_ids.append(fid)
    # rejection clause: unknown file types and the accepted upper-case suffix
    some = chosen[0][0]
    for name, bad in REJECTION_CASES:
        stem, dot, ext = name.partition('.')
        fid = 'reject:' + name
        files[fid] = {'text': some['text'], 'stem': stem, 'suffix': dot + ext,
                      'census': not bad, 'expect_error': bad}
        for d in DELIVERIES:
            cases.append([fid, ['F0'], d, []])
    # spread cases over chunks so that chunks have similar cost
    rng2 = random.Random(base + 99)
    rng2.shuffle(cases)
    chunk = tier['chunk']
    jobs = []
    for a in range(0, len(cases), chunk):
        part = cases[a:a + chunk]
        used = {c[0] for c in part}
        jobs.append({'files': {f: files[f] for f in used}, 'cases': part})
    return jobs, files, exhaustive, [c[0]['id'] for c in chosen] + full_ids, [m[0]['id'] for m in multis]


# ------------------------------------------------------------------ minimise

def literal_failure(text, stem, delivery, options, expected_pairs, sc, suffix='.pdb', history=None):
    """Run text through the worker with explicit expectations, in a fresh
    process; `history` is a list of literal earlier calls
    [text, stem, delivery, options, suffix] made in that process first."""
    cfg = M.Cfg(driver.REPO)
    recs = M.split_records(text)
    keep_protons = '-k' in options
    expect_error = M.usable_records(recs, cfg, keep_protons) == 0
    lines = set(text.splitlines())
    expected = None
    if not (expect_error or delivery == 'cli'):
        gone = set(p[0] for p in expected_pairs
                   if p[1] not in lines or any(d not in lines for d in (p[2] if len(p) > 2 else [])))
        # several pairs with one label = one per conformation: a side-chain
        # group survives while any of them does (same rule as the worker)
        alive = set(p[0] for p in expected_pairs
                    if p[1] in lines and all(d in lines for d in (p[2] if len(p) > 2 else [])))
        gone = set(lab for lab in gone if lab[:2] in ('N+', 'C-') or lab not in alive)
        expected = []
        for p in expected_pairs:
            if p[0] not in gone and p[0] not in expected:
                expected.append(p[0])
    code = (
        'import json,sys\n'
        'from sim import c12_worker as W, c12_model as M\n'
        'j=json.load(open(sys.argv[1]))\n'
        'for k,h in enumerate(j["history"]):\n'
        '    W.run_case(h[0],h[1],h[2],h[3],j["work"]+"/h%d"%k,h[4])\n'
        'out=W.run_case(j["text"],j["stem"],j["delivery"],j["options"],j["work"],j["suffix"])\n'
        'v=M.judge(out,j["expect_error"],j["expected"])\n'
        'json.dump({"outcome":out,"failure":v,"signature":M.failure_signature(v) if v else None},open(sys.argv[1]+".out","w"))\n')
    wd = sc.worker_dir()
    jp = wd + '.lit'
    with open(jp, 'w') as fh:
        json.dump({'text': text, 'stem': stem, 'delivery': delivery, 'options': options,
                   'work': wd, 'suffix': suffix, 'expect_error': expect_error,
                   'expected': expected, 'history': history or []}, fh)
    try:
        r = subprocess.run([driver.PY, '-c', code, jp], env=driver.worker_env(0, sc),
                           stdin=subprocess.DEVNULL, stdout=subprocess.DEVNULL,
                           stderr=subprocess.PIPE, text=True, errors='replace',
                           timeout=180 + 2 * len(history or []), cwd='/')
        if r.returncode != 0 or not os.path.exists(jp + '.out'):
            return {'harness_error': r.stderr[-2000:]}
        with open(jp + '.out') as fh:
            return json.load(fh)
    except subprocess.TimeoutExpired:
        return {'harness_error': 'literal case timeout'}
    finally:
        for p in (jp, jp + '.out'):
            try:
                os.unlink(p)
            except OSError:
                pass


def minimise(text, stem, delivery, options, expected_pairs, signature, sc, log, wall=90):
    """ddmin over whole residues, then over atom records, keeping the same
    failure signature."""
    deadline = time.time() + wall
    tests = [0]

    def fails(t):
        r = literal_failure(t, stem, delivery, options, expected_pairs, sc)
        tests[0] += 1
        return 'harness_error' not in r and r['failure'] is not None and r['signature'] == signature

    def ddmin(units, rebuild):
        n = 2
        while len(units) >= 2 and time.time() < deadline:
            n = min(n, len(units))
            size = max(1, len(units) // n)
            cands = [units[:a] + units[a + size:] for a in range(0, len(units), size)]
            res = driver.pool_map(lambda u: fails(rebuild(u)), cands)
            hit = next((c for c, ok in zip(cands, res) if ok), None)
            if hit is not None:
                units = hit
                n = max(n - 1, 2)
                continue
            if size == 1:
                break
            n = min(len(units), n * 2)
        return units

    lines = text.splitlines()
    # Only ATOM/HETATM records are ever lost, so only they may be removed while
    # minimising; TER/MODEL/ENDMDL lines are pinned (dropping a TER would turn a
    # chain start into an ordinary residue and fake a missing N+).
    # units = maximal runs of atom records with the same residue key
    units = []
    last = None
    for ln in lines:
        if ln[0:6] in M.ATOM_TAGS:
            key = (ln[0:6], ln[17:27])
            if key != last:
                units.append(['A', []])
                last = key
            units[-1][1].append(ln)
        else:
            units.append(['L', [ln]])
            last = None

    def rebuild(removable_kept, all_units):
        keep = set(id(u) for u in removable_kept)
        return ''.join(l + '\n' for u in all_units if u[0] == 'L' or id(u) in keep for l in u[1])
    removable = [u for u in units if u[0] == 'A']
    removable = ddmin(removable, lambda us: rebuild(us, units))
    # now single records inside the surviving residues
    flat = []
    for u in units:
        if u[0] == 'L':
            flat.append(['L', u[1]])
        elif any(u is r for r in removable):
            for ln in u[1]:
                flat.append(['A', [ln]])
    recs_ = [u for u in flat if u[0] == 'A']
    recs_ = ddmin(recs_, lambda us: rebuild(us, flat))
    keep = set(id(u) for u in recs_)
    atoms = [l for u in flat if u[0] == 'L' or id(u) in keep for l in u[1]]
    out = ''.join(l + '\n' for l in atoms)
    log('minimised to %d lines in %d tests' % (len(atoms), tests[0]))
    return out, tests[0]


def minimise_history(history, fails, log, wall=120):
    """ddmin over the earlier calls of a history-dependent failure."""
    deadline = time.time() + wall
    tests = 0
    n = 2
    while len(history) >= 1 and time.time() < deadline:
        n = min(n, len(history))
        size = max(1, len(history) // n)
        cands = [history[:a] + history[a + size:] for a in range(0, len(history), size)]
        res = driver.pool_map(fails, cands)
        tests += len(cands)
        hit = [c for c, r in zip(cands, res) if r]
        if hit:
            history = min(hit, key=len)
            n = max(2, n - 1)
        elif size == 1:
            break
        else:
            n = min(len(history), n * 2)
    log('history minimised to %d earlier calls in %d tests' % (len(history), tests))
    return history, tests


def known_match(findings, sig):
    for f in findings.get('findings', []):
        if f.get('property') == PID and f.get('signature') == sig:
            return f
    return None


def replay(path, sc):
    with open(path) as fh:
        rp = json.load(fh)
    r = literal_failure(rp['text'], rp['stem'], rp['delivery'], rp['options'],
                        rp['expected_pairs'], sc, rp.get('suffix', '.pdb'), history=rp.get('history'))
    if 'harness_error' in r:
        print('HARNESS-ERROR: ' + r['harness_error'])
        return 2
    if r['failure'] is not None:
        print('VIOLATION property=%s replay=%s' % (PID, path))
        print('  %s' % r['failure']['detail'])
        print('  same signature as recorded: %s' % (r['signature'] == rp.get('signature')))
        return 1
    print('replay did not reproduce a violation: %s' % json.dumps(r['outcome'])[:300])
    return 0


def regressions(sc, log):
    d = os.path.join(driver.VERIF, 'findings')
    out = {'replayed': 0, 'reproduced': []}
    if not os.path.isdir(d):
        return out
    for f in sorted(os.listdir(d)):
        if f.startswith(PID + '-fixed') and f.endswith('.json'):
            with open(os.path.join(d, f)) as fh:
                rp = json.load(fh)
            r = literal_failure(rp['text'], rp['stem'], rp['delivery'], rp['options'],
                                rp['expected_pairs'], sc, rp.get('suffix', '.pdb'), history=rp.get('history'))
            out['replayed'] += 1
            if 'harness_error' in r:
                raise driver.HarnessError('replay of %s failed: %s' % (f, r['harness_error'][-500:]))
            if r['failure'] is not None and r['signature'] == rp.get('signature'):
                out['reproduced'].append(os.path.join(d, f))
    return out


def main(argv=None):
    ap = argparse.ArgumentParser()
    ap.add_argument('--tier', default=os.environ.get('VERIF_TIER', 'quick'))
    ap.add_argument('--replay')
    args = ap.parse_args(argv)
    t0 = time.time()
    base = int(os.environ.get('VERIF_SEED', '0'))
    sc = driver.Scratch()

    def log(msg):
        print('[c12 %6.1fs] %s' % (time.time() - t0, msg), flush=True)
    try:
        try:
            driver.warm_pycache(sc)
        except driver.HarnessError as err:
            print('HARNESS-ERROR: %s' % err)
            return 2
        if args.replay:
            return replay(args.replay, sc)
        tier = TIERS[args.tier]
        cfg = M.Cfg(driver.REPO)
        wl = workload.build(driver.REPO)
        jobs, files, exhaustive, chosen, multis = build_jobs(base, wl, tier, cfg, log)
        ncases = sum(len(j['cases']) for j in jobs)
        log('VERIF_SEED=%d tier=%s: %d files (+%d multi-conformation), %d cases in %d chunks' % (
            base, args.tier, len(chosen), len(multis), ncases, len(jobs)))
        regress = regressions(sc, log)
        # base pass: the census expectation is 'groups of the complete
        # structure whose defining atom survives'; a group the complete file
        # does not report is not C12's business (it is excluded and noted)
        base_files = {f: v for f, v in files.items() if v.get('census') and not v.get('expect_error')}
        bj = {'files': base_files, 'cases': [[f, ['F0'], 'stream', []] for f in sorted(base_files)],
              'report_labels': True}
        bo = run_chunk(bj, sc)
        if 'harness_error' in bo:
            print('HARNESS-ERROR: ' + bo['harness_error'][-2000:])
            return 2
        base_missing = {f: m for f, m in bo.get('base_missing', {}).items() if m}
        nexp = sum(bo.get('base_expected', {}).values())
        nmiss = sum(len(m) for m in base_missing.values())
        if nexp and nmiss * 2 > nexp:
            print('HARNESS-ERROR: the census model disagrees with the complete structures on %d of %d '
                  'groups - model out of sync with the code (label format changed?)' % (nmiss, nexp))
            return 2
        for f, m in base_missing.items():
            files[f]['census_exclude'] = m
            for j in jobs:
                if f in j['files']:
                    j['files'][f]['census_exclude'] = m
        if base_missing:
            log('groups not reported for the complete file (excluded from the census clause): %s'
                % json.dumps(base_missing))
        outs = driver.pool_map(lambda j: run_chunk(j, sc), jobs)
        herr = [o['harness_error'] for o in outs if 'harness_error' in o]
        if herr:
            for h in herr[:3]:
                print('HARNESS-ERROR: ' + h[-2000:])
            return 2
        agg = {'cases': 0, 'by_kind': {}, 'expected_errors': 0, 'census_checked': 0,
               'labels_checked': 0, 'deliveries': {}, 'options': {}}
        digests, nontriv, states, failures = set(), set(), set(), []
        for ji, o in enumerate(outs):
            for k in ('cases', 'expected_errors', 'census_checked', 'labels_checked'):
                agg[k] += o[k]
            for k in ('by_kind', 'deliveries', 'options'):
                for kk, v in o[k].items():
                    agg[k][kk] = agg[k].get(kk, 0) + v
            for dg, triv in o['digests']:
                digests.add(dg)
                if not triv:
                    nontriv.add(dg)
            states.update(o['states'])
            for f in o['failures']:
                f['job'] = ji
            failures += o['failures']
        log('%d cases run, %d failures' % (agg['cases'], len(failures)))
        findings = driver.load_findings()
        nviol = 0
        by_sig = {}
        for f in failures:
            by_sig.setdefault(json.dumps(f['signature']), []).append(f)
        known_printed = set()
        samples_fail = []
        for sig, lst in sorted(by_sig.items()):
            f = lst[0]
            kf = known_match(findings, f['signature'])
            if kf is not None:
                if kf['id'] not in known_printed:
                    print('KNOWN-FINDING: property=%s %s' % (PID, kf['what']))
                    known_printed.add(kf['id'])
                continue
            fobj = files[f['file']]
            recs = M.split_records(fobj['text'])
            fault = tuple(f['fault']) if f['fault'][0] != 'F5' else ('F5', [tuple(x) for x in f['fault'][1]])
            keep, lost = M.apply_fault(recs, fault)
            text = M.render(recs, keep)
            cen = M.census(recs, cfg) if fobj.get('census') else []
            pairs = [[lab, recs[idx][1], [recs[d][1] for d in deps]] for lab, idx, deps in cen
                     if lab not in set(fobj.get('census_exclude') or [])]
            # confirm in a fresh process before reporting
            conf = literal_failure(text, fobj['stem'], f['delivery'], f['options'], pairs, sc,
                                   fobj.get('suffix', '.pdb'))
            if 'harness_error' in conf:
                print('HARNESS-ERROR: ' + conf['harness_error'][-1500:])
                return 2
            history = None
            if conf['failure'] is None or conf['signature'] != f['signature']:
                # not a function of this input alone: replay the calls made
                # earlier in the same worker process (a history-dependent failure
                # is still an unhandled error on an incomplete structure)
                history = []
                if f.get('job') is not None and f.get('case') is not None:
                    for c in jobs[f['job']]['cases'][:f['case']]:
                        hf = files[c[0]]
                        hrecs = M.split_records(hf['text'])
                        hfault = tuple(c[1]) if c[1][0] != 'F5' else ('F5', [tuple(x) for x in c[1][1]])
                        hkeep, _ = M.apply_fault(hrecs, hfault)
                        history.append([M.render(hrecs, hkeep), hf['stem'], c[2], c[3], hf.get('suffix', '.pdb')])

                def hfails(h):
                    r = literal_failure(text, fobj['stem'], f['delivery'], f['options'], pairs, sc,
                                        fobj.get('suffix', '.pdb'), history=h)
                    return ('harness_error' not in r and r['failure'] is not None
                            and r['signature'] == f['signature'])
                if not history or not hfails(history):
                    print('HARNESS-ERROR: failure %s on %s %s reproduced neither in a fresh process nor after '
                          'the %d earlier calls of its worker' % (sig, f['file'], f['fault'], len(history)))
                    return 2
                history, htests = minimise_history(history, hfails, log)
                conf = literal_failure(text, fobj['stem'], f['delivery'], f['options'], pairs, sc,
                                       fobj.get('suffix', '.pdb'), history=history)
                if 'harness_error' in conf or conf['failure'] is None:
                    print('HARNESS-ERROR: minimised history of %s does not reproduce' % sig)
                    return 2
            mtext, tests = text, 0
            if history is None and nviol < tier['max_min'] and not fobj.get('expect_error'):
                mtext, tests = minimise(text, fobj['stem'], f['delivery'], f['options'], pairs,
                                        f['signature'], sc, log)
            path = driver.replay_path(PID, '%s-%s' % (f['file'].replace(':', '_'), '_'.join(
                str(x) for x in f['signature'] if x)))
            path = path.replace(' ', '').replace('+', 'p')
            with open(path, 'w') as fh:
                json.dump({'property': PID, 'file': f['file'], 'fault': f['fault'],
                           'delivery': f['delivery'], 'options': f['options'],
                           'stem': fobj['stem'], 'suffix': fobj.get('suffix', '.pdb'),
                           'signature': f['signature'], 'failure': conf['failure'],
                           'occurrences': len(lst), 'minimisation_tests': tests,
                           'expected_pairs': pairs, 'text': mtext,
                           'history': history or [],
                           'history_note': ('the failure needs the listed earlier calls in the same process'
                                            if history else 'none: a function of this input alone')},
                          fh, indent=1)
            print('VIOLATION property=%s replay=%s' % (PID, path))
            print('  %s  (%d cases with this signature; first: file=%s fault=%s delivery=%s options=%s)'
                  % (conf['failure']['detail'], len(lst), f['file'], f['fault'], f['delivery'], f['options']))
            if history:
                print('  history-dependent: needs %d earlier call(s) in the same process (in the replay file)'
                      % len(history))
            samples_fail.append({'file': f['file'], 'fault': f['fault'], 'signature': f['signature']})
            nviol += 1
        for p in regress['reproduced']:
            print('VIOLATION property=%s replay=%s' % (PID, p))
            print('  a defect recorded as fixed has returned')
            nviol += 1
        wall = time.time() - t0
        samples = []
        for j in jobs[:1]:
            for c in j['cases'][:4]:
                samples.append({'file': c[0], 'fault': c[1], 'delivery': c[2], 'options': c[3]})
        fid0 = chosen[0]
        recs0 = M.split_records(files[fid0]['text'])
        keep0, _ = M.apply_fault(recs0, ('F3', 10, 6))
        samples.append({'file': fid0, 'fault': ['F3', 10, 6], 'faulted_text_head':
                        M.render(recs0, keep0).splitlines()[:14]})
        ev = {
            'property_id': PID, 'tier': args.tier, 'seed': base, 'level': 'fault_enumeration',
            'wall_s': round(wall, 1), 'violations': nviol,
            'coverage': {
                'evaluations': agg['cases'],
                'distinct_nontrivial': len(nontriv),
                'rule': ('one evaluation = one (workload file, record-loss fault, delivery, options) case run '
                         'against propka from the working tree. F1 truncation, F2 single lost record and F4 '
                         'lost head are enumerated at every ATOM/HETATM record boundary of every listed file; '
                         'F3 lost blocks of 2-16 records at every position (all in thorough, seeded sample in '
                         'quick); F5 two or three independent losses (seeded sample); F6 every run of consecutive '
                         'whole residues lost and F7 only a window of consecutive whole residues surviving '
                         '(every pair of residue boundaries); F8 periodic loss of every p-th block of b records '
                         '(b in 1,2,4,8; p in 2,3,5; every phase); F9 independent loss of each record with rate '
                         '0.02-0.9 (seeded sample); F10 two single records lost at most 12 records apart (all in '
                         'thorough, sample in quick); F11 two whole residues lost (every pair); F12/F13 the tail / '
                         'the head of one residue lost (every split point of every residue), also on two large '
                         'fragments (~700-800 records) in which groups count as buried; F14 subsets of the records '
                         'of ONE residue (every proper non-empty subset of every residue of at most f14_exh records, '
                         'a seeded sample of masks for larger residues and ligands: quick f14_exh=5, thorough 8); '
                         'F15 every record bearing a given atom name lost file-wide (every name; every pair of names '
                         'in thorough, seeded pairs in quick; backbone name groups); F16 only records bearing given '
                         'names survive (CA-only, backbone-only, backbone+CB models). Thorough adds the complete regression structures '
                         'with sampled F1/F2/F3/F4/F6/F7. Cases are distinct by '
                         'sha256(faulted text, options, delivery); a case is trivial if every lost record is one '
                         'the reader ignores anyway (ignorable residue, hydrogen without -k) or nothing is lost.'),
                'samples': samples,
                'scope': 'RESTRICTED: storage/transport record-loss patterns at the reader seam (F1-F13), subsets of one residue (F14) and name-keyed systematic losses (F15/F16); not arbitrary atom subsets of the whole structure',
                'cases_by_fault_kind': agg['by_kind'],
                'cases_by_delivery': agg['deliveries'], 'cases_by_options': agg['options'],
                'cases_expecting_ValueError': agg['expected_errors'],
                'cases_with_census_clause': agg['census_checked'],
                'group_labels_checked': agg['labels_checked'],
                'distinct_faulted_inputs': len(digests),
                'distinct_residue_states_reached': len(states),
                'residue_states_sample': sorted(states)[:30],
                'files': chosen, 'multi_conformation_files': multis,
                'per_file_exhaustive': exhaustive,
                # F5, F9 and the complete-structure arm are seeded samples, so the
                # run as a whole is not an exhaustive enumeration
                'exhaustive': False,
                'exhaustively_enumerated_families': (['F1', 'F2', 'F4', 'F6', 'F7', 'F8', 'F11', 'F12', 'F13', 'F16']
                                                     + (['F3', 'F10', 'F15'] if tier['f3'] == 'all' else [])),
                'f14_exhaustive_up_to_records': tier.get('f14_exh', 0),
                'f14_sampled_masks_per_larger_residue': tier.get('f14', 0),
                'exhaustive_note': ('F1, F2, F4 exhaustive over every record boundary and F6, F7 over every pair of '
                                    'residue boundaries of every listed file'
                                    + ('; F3 exhaustive too' if tier['f3'] == 'all' else '; F3 and F5 sampled')),
                'cases_per_hour': round(agg['cases'] / max(wall, 1e-9) * 3600),
                'fixed_defect_replays': regress,
                'failures_by_signature': {k: len(v) for k, v in by_sig.items()},
                'census_groups_expected_on_complete_files': nexp,
                'census_groups_excluded_because_unreported_on_complete_file': base_missing,
                'components': {'real': ['all of propka/* from the working tree', 'filesystem', 'argparse/CLI entry'],
                               'simulated': ['the file delivered to the reader: durable remainder after a storage/transport fault'],
                               'stub': []},
            },
            'assumptions': [
                'only ATOM/HETATM records are lost; TER/MODEL/ENDMDL survive',
                'torn (partially written) records are out of scope',
                'census clause covers amino-acid groups only; expectations are the ionizable groups of the original '
                'structure whose defining atom survives',
                'many cases share one interpreter (C03 establishes independence of earlier calls); every failure is '
                're-confirmed in a fresh process before it is reported',
            ],
        }
        driver.write_evidence(PID, ev)
        log('done: %d cases, %d violations' % (agg['cases'], nviol))
        return 1 if nviol else 0
    finally:
        sc.close()


if __name__ == '__main__':
    sys.exit(main())
