"""History generator for C03: a pure function (seed, workload) -> literal job.

One random.Random(seed) is consumed in a fixed order; nothing else is random.
"""
import random
from . import pdbtext as P
from .seams import Layout

OPTION_KINDS = ('quiet', 'loglevel', 'display', 'keep', 'protall', 'titrate',
                'chain', 'grid', 'window', 'ref', 'ph', 'param')
CALL_KINDS = ('single_path', 'single_stream', 'pipeline', 'cli', 'steps')
PERTURB_KINDS = ('chdir', 'alloc', 'gc', 'relayout', 'clock')
FAULT_KINDS = ('open-fail', 'read-fail', 'write-torn', 'close-fail',
               'seek-fail', 'crash')

# families that contain coupled systems, ligands with coupled groups, ions:
# the places where order- and state-dependent code paths actually run
HOT_FAMILIES = ('hpx_asp25', 'ftj_glu', 'ftj_sys3', 'hpx_triad', 'dfr_mtxa', 'dfr_mtxb', 'dfr_mtxs',
                'dfr_s00', 'dfr_s05', 'hpx_asp25s', 'sgb_nti', 'ftj_zn', 'hpx_kni')
BIG_OK = ('ftj_sys3',)
# families whose base structure has a non-covalently coupled pair
NONCOV_FAMILIES = ('hpx_asp25', 'ftj_glu')

INVALID_INPUTS = [
    {'id': 'invalid.empty', 'family': 'invalid_empty', 'stem': 'empty',
     'text': '', 'natoms': 0, 'tags': ['invalid']},
    {'id': 'invalid.noatoms', 'family': 'invalid_noatoms', 'stem': 'noatoms',
     'text': 'HEADER    NOTHING HERE\nREMARK   1\nEND\n', 'natoms': 0,
     'tags': ['invalid']},
]


def _subset(rng, items, lo=1):
    k = rng.randint(lo, len(items))
    return set(rng.sample(list(items), k))


def residue_ids(text):
    ids = []
    chains = []
    for line in text.splitlines():
        if line[0:6] in P.ATOM_TAGS and len(line) > 26:
            ch = line[21]
            try:
                num = int(line[22:26])
            except ValueError:
                continue
            key = (ch, num, line[26])
            if not ids or ids[-1] != key:
                if key not in ids:
                    ids.append(key)
            if ch not in chains:
                chains.append(ch)
    return ids, chains


def gen_options(rng, enabled, inp, params):
    groups = []
    sig = []
    param = None

    class _Acc:
        def __iadd__(self, toks):
            groups.append(list(toks))
            return self
    opts = _Acc()
    kinds = [k for k in OPTION_KINDS if k in enabled and rng.random() < 0.45]
    rng.shuffle(kinds)
    ids, chains = residue_ids(inp['text'])
    for k in kinds:
        if k == 'quiet':
            opts += ['-q']
        elif k == 'loglevel':
            opts += ['--log-level', rng.choice(['DEBUG', 'WARNING', 'ERROR', 'INFO'])]
        elif k == 'display':
            opts += ['-d']
        elif k == 'keep':
            opts += ['-k']
        elif k == 'protall':
            opts += ['--protonate-all']
        elif k == 'titrate':
            usable = [i for i in ids if i[0] != ' ' and i[1] >= 0]
            if not usable:
                continue
            pick = rng.sample(usable, min(len(usable), rng.randint(1, 6)))
            opts += ['-i', ','.join('{0}:{1}{2}'.format(c, n, ic.strip())
                                    for c, n, ic in pick)]
        elif k == 'chain':
            if not chains:
                continue
            cs = []
            for c in rng.sample(chains, rng.randint(1, len(chains))):
                cs += ['-c', c]
            opts += cs
        elif k == 'grid':
            opts += ['-g'] + rng.choice([['2.0', '10.0', '0.5'], ['0.0', '14.0', '0.25'],
                                         ['3.0', '9.0', '1.0'], ['1.5', '12.5', '0.7'],
                                         ['6.0', '8.0', '0.1']])
        elif k == 'window':
            # including boundary values: a step that rounds to 0.00 makes the
            # writer fail (a naturally failing call), a tiny one does not
            opts += ['-w'] + rng.choice([['1.0', '9.0', '2.0'], ['0.0', '14.0', '0.5'],
                                         ['4.0', '8.0', '1.0'], ['0.0', '14.0', '0.001'],
                                         ['0.0', '14.0', '0.01'], ['2.0', '12.0', '0.25']])
        elif k == 'ref':
            opts += ['-r', 'low-pH']
        elif k == 'ph':
            opts += ['-o', rng.choice(['5.5', '8.0'])]
        elif k == 'param':
            alts = [p for p in params if p != 'default']
            if not alts:
                continue
            param = rng.choice(alts)
            opts += ['-p', '@PARAM']
        else:
            continue
        sig.append(k if k != 'param' else 'param:' + param)
    return groups, param, '+'.join(sorted(sig)) or 'none'


def gen_layout(rng):
    return [rng.choice(Layout.MODELS), rng.randrange(1 << 30)]


def gen_perturbations(rng, enabled, wl_params, next_inputs, call_is_rel):
    out = []
    for k in PERTURB_KINDS:
        if k not in enabled or rng.random() > 0.35:
            continue
        if k == 'chdir':
            decoys = []
            if rng.random() < 0.5:
                for dk in ('cfg', 'bonds', 'stale_pka', 'same_pdb'):
                    if rng.random() < 0.4:
                        if dk == 'cfg':
                            alts = [p for p in wl_params if p['text']]
                            if alts:
                                decoys.append({'kind': 'cfg', 'text': rng.choice(alts)['text']})
                        elif dk == 'bonds':
                            decoys.append({'kind': 'bonds'})
                        elif dk == 'stale_pka':
                            decoys.append({'kind': 'stale_pka',
                                           'stems': [i['stem'] for i in next_inputs]})
                        elif dk == 'same_pdb' and not call_is_rel:
                            decoys.append({'kind': 'same_pdb', 'stem': next_inputs[0]['stem'],
                                           'text': 'ATOM      1  N   GLY A   1       0.000   0.000   0.000  1.00  0.00           N\nEND\n'})
            out.append({'kind': 'chdir', 'decoys': decoys})
        elif k == 'alloc':
            out.append({'kind': 'alloc', 'seed': rng.randrange(1 << 30),
                        'n': rng.choice([3, 17, 64, 257, 1000]),
                        'hold': rng.choice([0.0, 0.3, 0.7]),
                        'drop_old': rng.random() < 0.6})
        elif k == 'gc':
            op = rng.choice(['collect', 'disable', 'enable', 'threshold'])
            p = {'kind': 'gc', 'op': op}
            if op == 'threshold':
                p['args'] = rng.choice([[700, 10, 10], [50, 2, 2], [10000, 50, 50]])
            out.append(p)
        elif k == 'relayout':
            out.append({'kind': 'relayout', 'layout': gen_layout(rng)})
        elif k == 'clock':
            out.append({'kind': 'clock', 'days': rng.choice([1, 30, 365, 4000])})
    rng.shuffle(out)
    return out


STEP_COUNT = 6   # loadOptions, parameters, container, read, calculate, write


def gen_call(rng, enabled_calls, inp, opts, param, pool, allow_invalid, optgen=None):
    kind = rng.choice(sorted(enabled_calls))
    if kind == 'steps' and (optgen is None or inp.get('natoms', 1) == 0):
        kind = 'pipeline'
    call = {'kind': kind, 'inputs': [inp['id']], 'optgroups': opts,
            'options': [t for g in opts for t in g], 'param': param}
    if rng.random() < 0.08:
        call['suffix'] = '.PDB'
    if kind == 'single_path':
        call['path_kind'] = rng.choice(['abs', 'rel', 'Path', 'zip', 'abs', 'rel',
                                        'dotdot', 'symlink', 'symdir'])
        if call['path_kind'] == 'rel':
            call['dotslash'] = rng.random() < 0.3
        if call['path_kind'] == 'zip':
            call['zip_sub'] = rng.random() < 0.5
        call['write_pka'] = rng.random() < 0.8
    elif kind in ('single_stream', 'pipeline'):
        call['stream_kind'] = rng.choice(['stringio', 'textio', 'file'])
        call['write_pka'] = rng.random() < 0.8
    elif kind == 'steps':
        # step-level API on 2-3 molecules, their steps interleaved by a seeded
        # scheduler; molecules with the same parameter file may share one
        # Parameters object, as run.main() does for the files of an invocation
        n_extra = rng.choice([1, 1, 2])
        stems = {inp['stem']}
        mols = [{'input': inp['id'], 'optgroups': opts, 'options': call['options'],
                 'param': param}]
        tries = 0
        while len(mols) < 1 + n_extra and tries < 20:
            tries += 1
            o = rng.choice(pool)
            if o['stem'] in stems or o['natoms'] > 200 or o['natoms'] == 0:
                continue
            stems.add(o['stem'])
            if rng.random() < 0.5:
                og, op = opts, param
            else:
                og, op, _ = optgen(o)
            mols.append({'input': o['id'], 'optgroups': og,
                         'options': [t for g in og for t in g], 'param': op})
        for m in mols:
            m['stream_kind'] = rng.choice(['stringio', 'textio', 'path'])
            m['write_pka'] = rng.random() < 0.8
        sched = [i for i in range(len(mols)) for _ in range(STEP_COUNT)]
        rng.shuffle(sched)
        call['mols'] = mols
        call['schedule'] = sched
        call['share_parameters'] = rng.random() < 0.6
        call['inputs'] = [m['input'] for m in mols]
        call['write_pka'] = True
    elif kind == 'cli':
        call['cli_rel'] = rng.random() < 0.4
        extra = rng.choice([0, 0, 1, 1, 2])
        stems = {inp['stem']}
        others = []
        tries = 0
        while len(others) < extra and tries < 20:
            tries += 1
            o = rng.choice(pool)
            if o['stem'] in stems or o['natoms'] > 200:
                continue
            stems.add(o['stem'])
            others.append(o)
        ids = [o['id'] for o in others] + [inp['id']]
        rng.shuffle(ids)
        call['inputs'] = ids
        call['write_pka'] = True
    return call


def gen_fault(rng, enabled_faults, call):
    kinds = [k for k in FAULT_KINDS if k in enabled_faults]
    if call['kind'] in ('cli', 'single_path', 'steps'):
        kinds = [k for k in kinds if k != 'seek-fail']
    if not kinds:
        return None
    k = rng.choice(kinds)
    f = {'kind': k}
    if k == 'crash':
        f['u_func'] = rng.random()
        f['u_ord'] = rng.random()
    else:
        f['u'] = rng.random()
        f['u2'] = rng.random()
    return f


def gen_history(seed, wl, cfg=None):
    """Returns the literal job (without scratch path)."""
    cfg = cfg or {}
    rng = random.Random(seed)
    inputs = wl['inputs']
    by_id = {i['id']: i for i in inputs}
    params = {p['id']: p['text'] for p in wl['params']}
    max_atoms = cfg.get('max_atoms', 300)
    pool = [i for i in inputs if i['natoms'] <= max_atoms or i['family'] in BIG_OK]
    small = [i for i in pool if i['natoms'] <= 120]
    table_mutating = [i for i in pool if i['tags'][0] in ('unk', 'unkc')]
    fams = {}
    for i in pool:
        fams.setdefault(i['family'], []).append(i)

    # --- per-history swarm configuration
    arm = cfg.get('arm') or rng.choice(['sim', 'sim', 'native'])
    mode = {'addr': 'sim' if arm == 'sim' else 'native',
            'layout': gen_layout(rng),
            'rollover': rng.random() < 0.25,
            'clock_start': 730000 + rng.randrange(15000),
            # every read of a clock advances simulated time by this many seconds:
            # from a fast machine to one that is paused for most of a minute
            'clock_tick': rng.choice([0.0001, 0.001, 0.05, 2.0, 45.0]),
            'filelayer': True, 'clock': True, 'probe': True}
    if rng.random() < 0.5:
        # the process environment is not input: HOME with decoy configuration
        # files, time zone, locale, made-up PROPKA_* variables
        mode['env'] = {'home_decoys': True,
                       'TZ': rng.choice(['UTC', 'Pacific/Kiritimati', 'America/Anchorage', 'Asia/Kolkata']),
                       'LC_ALL': rng.choice(['C.UTF-8', 'POSIX', 'C']),
                       'PROPKA_PARAMETERS': '/nonexistent/propka.cfg',
                       'PROPKA_CFG': 'decoy', 'PROPKA_OPTIONS': '-d -k',
                       'COLUMNS': rng.choice(['40', '200'])}
        opt = rng.choice(['', '', '1', '2'])
        if opt:
            mode['env']['PYTHONOPTIMIZE'] = opt     # python -O / -OO: asserts stripped
    if arm == 'native' and rng.random() < 0.35:
        mode['malloc'] = True      # PYTHONMALLOC=malloc: another real allocator, other address patterns
    if arm == 'bare':
        mode.update({'addr': 'native', 'filelayer': False, 'clock': False,
                     'probe': False, 'rollover': False})
    faults_on = cfg.get('faults', True) and arm != 'bare' and rng.random() < 0.5
    en_opts = _subset(rng, OPTION_KINDS, 2)
    en_calls = _subset(rng, CALL_KINDS, 1)
    en_pert = _subset(rng, PERTURB_KINDS, 1) if arm != 'bare' else {'chdir', 'alloc', 'gc'}
    en_faults = _subset(rng, FAULT_KINDS, 1) if faults_on else set()
    nsteps = rng.randint(cfg.get('min_steps', 4), cfg.get('max_steps', 14))
    focus = rng.sample(sorted(fams), min(len(fams), rng.randint(1, 3)))
    hot = [f for f in HOT_FAMILIES if f in fams]
    if hot and rng.random() < 0.35:
        focus[0] = rng.choice(hot)
    # inputs with process-lifetime side effects / order-sensitive modes first
    history = []
    used = {}
    steps = []
    for n in range(nsteps):
        r = rng.random()
        prev = None
        if history and r < 0.30:
            # repeat an earlier (input, options) pair, maybe via another call kind
            prev = rng.choice(history)
            inp, opts, param, optsig = prev
        elif history and r < 0.55:
            # sibling variant of an earlier input, same options where they make sense
            p = rng.choice(history)
            sibs = fams.get(p[0]['family'], [p[0]])
            inp = rng.choice(sibs)
            opts, param, optsig = p[1], p[2], p[3]
        else:
            if table_mutating and rng.random() < 0.10:
                # inputs that write into process-lifetime tables (elements the
                # valence table lacks), in their two flavours
                inp = rng.choice(table_mutating)
            elif rng.random() < 0.7:
                inp = rng.choice(fams[rng.choice(focus)])
            else:
                inp = rng.choice(small if small and rng.random() < 0.7 else pool)
            if cfg.get('invalid', True) and rng.random() < 0.04:
                inp = rng.choice(INVALID_INPUTS)
            opts, param, optsig = gen_options(rng, en_opts, inp, params)
            if (inp['family'] in NONCOV_FAMILIES + BIG_OK and ['-d'] not in opts
                    and rng.random() < 0.4):
                # the display mode matters where there is something to display
                opts = opts + [['-d']]
                optsig += '+display'
        history.append((inp, opts, param, optsig))
        call = gen_call(rng, en_calls, inp, opts, param, pool, True,
                        optgen=lambda o: gen_options(rng, en_opts, o, params))
        call_inputs = [by_id.get(i) or next(x for x in INVALID_INPUTS if x['id'] == i)
                       for i in call['inputs']]
        is_rel = (call.get('path_kind') == 'rel') or call.get('cli_rel', False)
        step = {'perturb': gen_perturbations(rng, en_pert, wl['params'], call_inputs, is_rel),
                'call': call, 'optsig': optsig, 'family': inp['family']}
        if en_faults and rng.random() < 0.3:
            f = gen_fault(rng, en_faults, call)
            if f:
                step['fault'] = f
        for ci in call_inputs:
            used[ci['id']] = {'text': ci['text'], 'stem': ci['stem']}
        steps.append(step)
    # order-sensitive things early: move steps with -d / alt params / unknown
    # element inputs towards the front with probability 1/2
    if rng.random() < 0.5:
        def early(s):
            c = s['call']
            return (['-d'] in c['optgroups'] or c.get('param')
                    or any(i.endswith('.unk') for i in c['inputs']))
        steps.sort(key=lambda s: 0 if early(s) else 1)
    used_params = {}
    for s in steps:
        pid = s['call'].get('param')
        if pid:
            used_params[pid] = params[pid]
        for m in s['call'].get('mols', []):
            if m.get('param'):
                used_params[m['param']] = params[m['param']]
    return {'seed': seed, 'mode': mode, 'inputs': used, 'params': used_params,
            'steps': steps, 'arm': arm + ('-malloc' if mode.get('malloc') else ''),
            'faults_on': bool(en_faults)}


def gen_sweep(seed, wl, cfg=None):
    """Crash-sweep history: one subject call is crashed at every function it
    executes (rank by rank, a chunk of ranks per history), each crash followed
    by an un-faulted probe call that must match its reference.  Targets state
    that is set and restored without try/finally."""
    cfg = cfg or {}
    rng = random.Random(seed)
    inputs = wl['inputs']
    params = {p['id']: p['text'] for p in wl['params']}
    pool = [i for i in inputs if i['natoms'] <= cfg.get('sweep_max_atoms', 200)]
    fams = {}
    for i in pool:
        fams.setdefault(i['family'], []).append(i)
    hot = [f for f in HOT_FAMILIES if f in fams]
    noncov = [f for f in NONCOV_FAMILIES if f in fams]
    u = rng.random()
    if noncov and u < 0.4:
        fam = rng.choice(noncov)
    elif hot and u < 0.75:
        fam = rng.choice(hot)
    else:
        fam = rng.choice(sorted(fams))
    subject = rng.choice(fams[fam])
    en_opts = set(k for k in OPTION_KINDS if rng.random() < 0.4)
    opts, param, optsig = gen_options(rng, en_opts, subject, params)
    if ['-d'] not in opts and rng.random() < 0.6:
        opts = opts + [['-d']]
        optsig += '+display'
    mode = {'addr': 'sim', 'layout': gen_layout(rng), 'rollover': False,
            'clock_start': 730000 + rng.randrange(15000),
            'filelayer': True, 'clock': True, 'probe': True}
    chunk = cfg.get('sweep_chunk', 16)
    first = rng.randrange(16) * chunk
    probe_opts = [[], [['-d']], opts]
    steps = []
    used = {subject['id']: {'text': subject['text'], 'stem': subject['stem']}}
    kind = rng.choice(['single_path', 'single_stream', 'pipeline', 'cli'])
    subject_call = gen_call(rng, {kind}, subject, opts, param, [subject], False)
    subject_call['inputs'] = [subject['id']]
    for r in range(first, first + chunk):
        call = dict(subject_call)   # the same call every time: one census serves all
        steps.append({'perturb': [], 'call': call, 'optsig': optsig, 'family': fam,
                      'fault': {'kind': 'crash', 'rank': r, 'u_ord': rng.random(),
                                'u_win': rng.random()}})
        po = rng.choice(probe_opts)
        probe = rng.choice(fams[fam]) if rng.random() < 0.3 else subject
        used[probe['id']] = {'text': probe['text'], 'stem': probe['stem']}
        pc = gen_call(rng, {'single_stream', 'single_path'}, probe, po,
                      param if po is opts else None, [probe], False)
        steps.append({'perturb': [], 'call': pc, 'optsig': 'probe', 'family': fam})
    used_params = {param: params[param]} if param else {}
    return {'seed': seed, 'mode': mode, 'inputs': used, 'params': used_params,
            'steps': steps, 'arm': 'sweep', 'faults_on': True}


def gen_repeat(seed, wl, cfg=None):
    """Repetition history: one to three (input, options) pairs called 30-60
    times in one process.  Targets leaks that depend on a count: budgets,
    size-bounded caches that start evicting, counters that wrap, toggles."""
    cfg = cfg or {}
    rng = random.Random(seed)
    inputs = wl['inputs']
    params = {p['id']: p['text'] for p in wl['params']}
    pool = [i for i in inputs if i['natoms'] <= 200 or i['family'] in NONCOV_FAMILIES + BIG_OK]
    fams = {}
    for i in pool:
        fams.setdefault(i['family'], []).append(i)
    special = [f for f in NONCOV_FAMILIES + BIG_OK if f in fams]
    hot = [f for f in HOT_FAMILIES if f in fams]
    u = rng.random()
    big = [f for f in BIG_OK if f in fams]
    if big and u < 0.3:
        fam = rng.choice(big)       # the only inputs with a coupled system of three groups
    elif special and u < 0.55:
        fam = rng.choice(special)
    elif hot and u < 0.8:
        fam = rng.choice(hot)
    else:
        fam = rng.choice(sorted(fams))
    pairs = []
    for n in range(rng.randint(1, 3)):
        inp = rng.choice(fams[fam]) if n else fams[fam][0]
        en = set(k for k in OPTION_KINDS if rng.random() < 0.3)
        opts, param, optsig = gen_options(rng, en, inp, params)
        if ['-d'] not in opts and rng.random() < 0.7:
            opts = opts + [['-d']]
            optsig += '+display'
        pairs.append((inp, opts, param, optsig))
    mode = {'addr': 'sim', 'layout': gen_layout(rng), 'rollover': False,
            'clock_start': 730000 + rng.randrange(15000),
            'filelayer': True, 'clock': True, 'probe': True}
    steps = []
    used = {}
    used_params = {}
    for _ in range(rng.randint(30, 60)):
        inp, opts, param, optsig = rng.choice(pairs)
        call = gen_call(rng, {'single_path', 'single_stream', 'pipeline'}, inp, opts, param, [inp], False)
        used[inp['id']] = {'text': inp['text'], 'stem': inp['stem']}
        if param:
            used_params[param] = params[param]
        steps.append({'perturb': [], 'call': call, 'optsig': optsig, 'family': fam})
    return {'seed': seed, 'mode': mode, 'inputs': used, 'params': used_params,
            'steps': steps, 'arm': 'repeat', 'faults_on': False}


def gen_param_walk(seed, wl, cfg=None):
    """Parameter-file history: one or two inputs of a family with coupled
    systems / ligands / ions are run under a shuffled walk through the
    parameter files, each followed (usually) by a run under the default file
    or another one.  Targets anything a parameter file leaves behind."""
    cfg = cfg or {}
    rng = random.Random(seed)
    inputs = wl['inputs']
    params = {p['id']: p['text'] for p in wl['params']}
    pool = [i for i in inputs if i['natoms'] <= 200 or i['family'] in NONCOV_FAMILIES]
    fams = {}
    for i in pool:
        fams.setdefault(i['family'], []).append(i)
    hot = [f for f in HOT_FAMILIES if f in fams]
    fam = rng.choice(hot) if hot and rng.random() < 0.8 else rng.choice(sorted(fams))
    subjects = rng.sample(fams[fam], min(len(fams[fam]), rng.randint(1, 2)))
    pids = [p for p in params if params[p] is not None]
    rng.shuffle(pids)
    extra = [[], [['-d']], [['-k']], [['--protonate-all']]]
    mode = {'addr': 'sim', 'layout': gen_layout(rng), 'rollover': False,
            'clock_start': 730000 + rng.randrange(15000),
            'filelayer': True, 'clock': True, 'probe': True}
    steps = []
    used = {}
    used_params = {}

    def add(inp, pid, more):
        opts = list(more) + ([['-p', '@PARAM']] if pid else [])
        call = gen_call(rng, {'single_path', 'single_stream', 'pipeline', 'cli'}, inp, opts, pid,
                        [inp], False)
        call['inputs'] = [inp['id']]
        used[inp['id']] = {'text': inp['text'], 'stem': inp['stem']}
        if pid:
            used_params[pid] = params[pid]
        steps.append({'perturb': [], 'call': call, 'family': fam,
                      'optsig': 'param:%s%s' % (pid or 'default', '+' + more[0][0] if more else '')})
    for pid in pids[:rng.randint(5, 8)]:
        add(rng.choice(subjects), pid, rng.choice(extra))
        if rng.random() < 0.7:
            add(rng.choice(subjects), None if rng.random() < 0.7 else rng.choice(pids),
                rng.choice(extra))
    return {'seed': seed, 'mode': mode, 'inputs': used, 'params': used_params,
            'steps': steps, 'arm': 'params', 'faults_on': False}
