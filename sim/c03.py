"""C03 check: results are a pure function of input content and options.

  python -m sim.c03 --tier quick|thorough
  python -m sim.c03 --replay FILE
"""
import argparse
import copy
import hashlib
import json
import os
import subprocess
import sys
import time
from concurrent.futures import ThreadPoolExecutor, as_completed

from . import driver, history, workload, minimise
from . import pdbtext as P

PID = 'C03'

TIERS = {
    'quick': {'histories': 480, 'explore_s': 300, 'selftest_seeds': 8, 'oneshot': 12, 'bare': 8,
              'min_wall': 75, 'full_every': 0, 'max_min': 2},
    'thorough': {'histories': 14000, 'explore_s': 3000, 'selftest_seeds': 64, 'oneshot': 96,
                 'bare': 48, 'min_wall': 150, 'full_every': 25, 'max_min': 4},
}

REAL_STUB = {
    'real': ['all of propka/* from the working tree (unmodified)',
             'CPython set/dict/argparse/logging/zipfile/pathlib',
             'filesystem (per-worker scratch directory)',
             'reference interpreter (forked from a pristine parent; sampled '
             'cross-check against a true one-shot python process)'],
    'simulated': ['object addresses as seen by identity hashes (sim arm)',
                  'builtins.id() of propka objects (sim arm): simulated allocator that hands dead objects\' '
                  'addresses to later objects of the same type (fault kind id_address_reuse)',
                  'calendar date (propka.output.date)',
                  'I/O faults at io.open/builtins.open',
                  'crashes (SimCrash raised from sys.settrace line events)',
                  'allocator/gc stimulus, cwd and decoy files, argv',
                  'process environment of the worker (HOME with decoy configuration files, TZ, LC_ALL, '
                  'PROPKA_* variables); the reference runs in the canonical environment'],
    'stub': [],
}


def job_digest(job):
    return hashlib.sha256(json.dumps(job, sort_keys=True).encode()).hexdigest()[:16]


def seed_of(base, i):
    return base * 1000003 + i


SWEEP_EVERY = 9
REPEAT_EVERY = 16
PARAMS_EVERY = 11


def gen(seed, wl, wl_full, full_every):
    if seed % PARAMS_EVERY == 7:
        return history.gen_param_walk(seed, wl)
    if seed % REPEAT_EVERY == 5:
        return history.gen_repeat(seed, wl)
    if seed % SWEEP_EVERY == 3:
        return history.gen_sweep(seed, wl, {'sweep_max_atoms': 300})
    if full_every and seed % full_every == 0 and wl_full is not None:
        return history.gen_history(seed, wl_full, {
            'max_atoms': 100000, 'min_steps': 2, 'max_steps': 3, 'invalid': False})
    return history.gen_history(seed, wl)


# ---------------------------------------------------------------- self-test

def self_test(base, wl, sc, tier, log):
    """Determinism and soundness of the harness itself; failure is a harness
    error (exit 2), never a verdict about propka."""
    res = {'ok': True, 'problems': []}
    n = tier['selftest_seeds']
    seeds = [seed_of(base, 10**6 + i) for i in range(n)]
    jobs = [history.gen_history(s, wl, {'arm': 'sim'}) for s in seeds]
    # (a) history generation is independent of the driver's own hash seed
    here = [job_digest(j) for j in jobs]
    for hs in ('1', '4242'):
        env = dict(os.environ, PYTHONHASHSEED=hs, PYTHONPATH=driver.VERIF)
        r = subprocess.run([driver.PY, '-m', 'sim.c03', '--gen-digest',
                            ','.join(map(str, seeds))], env=env, cwd=driver.VERIF,
                           capture_output=True, text=True, timeout=300)
        there = r.stdout.split()
        if r.returncode != 0 or there != here:
            res['ok'] = False
            res['problems'].append('history generation differs under PYTHONHASHSEED=%s' % hs)
    # (b) same job twice, 16 workers then 1 worker: fingerprints agree
    t0 = time.time()
    first = driver.pool_map(lambda j: driver.run_job(j, sc), jobs)
    second = driver.pool_map(lambda j: driver.run_job(j, sc), jobs, jobs=1 if n <= 8 else 4)
    nd = 0
    for j, a, b in zip(jobs, first, second):
        if 'harness_error' in a or 'harness_error' in b:
            res['ok'] = False
            res['problems'].append('harness error in self-test seed %s: %s' % (
                j['seed'], (a.get('harness_error') or b.get('harness_error'))[-800:]))
            continue
        if a['fingerprint'] != b['fingerprint']:
            nd += 1
            if j['mode']['addr'] == 'native' and not driver.setarch_prefix():
                continue
            res['ok'] = False
            res['problems'].append('seed %s (%s) not deterministic: %s vs %s' % (
                j['seed'], j['arm'], a['fingerprint'], b['fingerprint']))
    res['determinism'] = {'seeds': n, 'divergent': nd, 'wall_s': round(time.time() - t0, 1),
                          'aslr_off': bool(driver.setarch_prefix())}
    # (c) patched vs bare: the seams are behaviour-preserving when idle
    nb = tier['bare']
    bseeds = [seed_of(base, 2 * 10**6 + i) for i in range(nb)]
    pairs = []
    for s in bseeds:
        j = history.gen_history(s, wl, {'arm': 'sim', 'faults': False})
        jb = copy.deepcopy(j)
        jb['mode'].update({'addr': 'native', 'filelayer': False, 'clock': False,
                           'probe': False, 'rollover': False})
        for st in jb['steps']:
            st['perturb'] = [p for p in st['perturb'] if p['kind'] not in ('relayout', 'clock')]
        pairs.append((j, jb))
    outs = driver.pool_map(lambda p: (driver.run_job(p[0], sc), driver.run_job(p[1], sc)), pairs)
    nbad = 0
    for (j, jb), (a, b) in zip(pairs, outs):
        if 'harness_error' in a or 'harness_error' in b:
            res['ok'] = False
            res['problems'].append('harness error in bare pair %s: %s' % (
                j['seed'], (a.get('harness_error') or b.get('harness_error'))[-800:]))
        elif a['outcomes'] != b['outcomes']:
            nbad += 1
            if not (a['mismatch'] or b['mismatch']):
                res['ok'] = False
                res['problems'].append('patched and bare runs differ for seed %s' % j['seed'])
    res['bare_pairs'] = {'pairs': nb, 'different': nbad}
    # (d) fork-server references equal true one-shot interpreters
    want = tier['oneshot']
    reqs = []
    for j, a in zip(jobs, first):
        if 'harness_error' in a:
            continue
        seen = set()
        for stepi, iid, dg in [e[:3] for e in a['ref_digests']]:
            call = j['steps'][stepi]['call']
            spec = call
            if call['kind'] == 'steps':
                spec = next(m for m in call['mols'] if m['input'] == iid)
            key = (iid, json.dumps(spec['options']), spec.get('param'))
            if key in seen:
                continue
            seen.add(key)
            inp = j['inputs'][iid]
            reqs.append(({'seed': j['seed'], 'oneshot': {
                'pure': True, 'text': inp['text'], 'stem': inp['stem'], 'options': spec['options'],
                'param_text': j['params'].get(spec.get('param')) if spec.get('param') else None,
                'suffix': call.get('suffix', '.pdb')}}, dg))
    reqs = reqs[:want]
    outs = driver.pool_map(lambda r: driver.run_job(r[0], sc, hashseed=0), reqs)
    bad = 0
    for (rq, dg), o in zip(reqs, outs):
        if 'harness_error' in o:
            res['ok'] = False
            res['problems'].append('one-shot failed: ' + o['harness_error'][-600:])
        elif o['digest'] != dg:
            bad += 1
            res['ok'] = False
            res['problems'].append('fork-server reference differs from one-shot interpreter '
                                   '(stem %s, options %s)' % (rq['oneshot']['stem'], rq['oneshot']['options']))
    res['oneshot_crosschecks'] = {'checked': len(reqs), 'different': bad}
    return res


# ---------------------------------------------------------------- exploration

class Agg:
    def __init__(self):
        self.histories = 0
        self.calls = 0
        self.compared = 0
        self.armed = {}
        self.fired = {}
        self.crash_sites = set()
        self.orders = set()
        self.perturb = {}
        self.call_kinds = {}
        self.cases = set()
        self.nontrivial = set()
        self.days = 0
        self.refs = 0
        self.census = 0
        self.line_events = 0
        self.arms = {}
        self.notes = set()
        self.verdicts = {}
        self.samples = []
        self.harness = []
        self.mismatches = []
        self.hashseeds = set()
        self.state_windows = 0
        self.aimed = 0
        self.refs_by_key = {}
        self.ref_workers = {}

    def add(self, job, res):
        if 'harness_error' in res:
            self.harness.append((job['seed'], res['harness_error']))
            return
        self.histories += 1
        st = res['stats']
        self.calls += st['calls']
        self.compared += st['compared']
        for k, v in st['faults_armed'].items():
            self.armed[k] = self.armed.get(k, 0) + v
        for k, v in st['faults_fired'].items():
            self.fired[k] = self.fired.get(k, 0) + v
        for s in st['crash_sites']:
            self.crash_sites.add(tuple(s))
        self.orders.update(st['orders'])
        for k, v in st['perturb'].items():
            self.perturb[k] = self.perturb.get(k, 0) + v
        for k, v in st['call_kinds'].items():
            self.call_kinds[k] = self.call_kinds.get(k, 0) + v
        for c in st['cases']:
            sig = json.dumps(c['sig'])
            self.cases.add(sig)
            if not c['trivial']:
                self.nontrivial.add(sig)
        self.days += st['days']
        self.refs += st['refs']
        self.census += st['census_runs']
        self.line_events += st['line_events']
        for ent in res.get('ref_digests', []):
            if len(ent) >= 4:
                d = self.refs_by_key.setdefault(ent[3], {})
                d.setdefault(ent[2], (job['seed'], ent[0], ent[1]))
                self.ref_workers.setdefault(ent[3], set()).add(job['seed'])
        self.skipped_slow = getattr(self, 'skipped_slow', 0) + st.get('skipped_slow', 0)
        self.state_windows += st.get('state_windows', 0)
        self.aimed += st.get('aimed_crashes', 0)
        self.arms[job['arm']] = self.arms.get(job['arm'], 0) + 1
        if job['mode'].get('env'):
            self.env_varied = getattr(self, 'env_varied', 0) + 1
        self.notes.update(res['notes'])
        self.hashseeds.add(res['hashseed'])
        for e in res['events']:
            self.verdicts[e['verdict']] = self.verdicts.get(e['verdict'], 0) + 1
        if len(self.samples) < 3 and (len(self.samples) == 0 or st['faults_fired']):
            self.samples.append(describe(job, res))
        if res['mismatch']:
            self.mismatches.append((job, res))


def describe(job, res=None):
    """A compact, readable rendering of one history."""
    steps = []
    for i, s in enumerate(job['steps']):
        c = s['call']
        d = {'perturb': [p['kind'] + (':' + '+'.join(x['kind'] for x in p.get('decoys', []))
                                     if p.get('decoys') else '') for p in s['perturb']],
             'call': c['kind'] + ':' + (c.get('path_kind') or c.get('stream_kind') or 'argv'),
             'inputs': c['inputs'], 'options': c['options'], 'param': c.get('param'),
             **({'molecules': [[m['input'], m['options'], m.get('param'), m['stream_kind']] for m in c['mols']],
                 'schedule': c['schedule'], 'share_parameters': c.get('share_parameters')}
                if c.get('mols') else {}),
             'write_pka': c.get('write_pka', True)}
        if s.get('fault'):
            d['fault'] = s['fault']['kind']
        if res is not None and i < len(res['events']):
            d['fired'] = res['events'][i]['fired']
            d['verdict'] = res['events'][i]['verdict']
        steps.append(d)
    return {'seed': job['seed'], 'arm': job['arm'], 'mode': job['mode'], 'steps': steps}


def explore(base, wl, wl_full, sc, tier, agg, log):
    deadline = time.time() + tier['explore_s']
    i = 0
    inflight = set()
    with ThreadPoolExecutor(max_workers=driver.NPROC) as ex:
        def submit():
            nonlocal i
            seed = seed_of(base, i)
            i += 1
            job = gen(seed, wl, wl_full, tier['full_every'])
            f = ex.submit(driver.run_job, job, sc, 600 if job['steps'] and len(job['inputs']) and any(
                len(v['text']) > 60000 for v in job['inputs'].values()) else 180)
            f.job = job
            inflight.add(f)
        for _ in range(min(driver.NPROC * 2, tier['histories'])):
            submit()
        while inflight:
            done = next(as_completed(inflight))
            inflight.discard(done)
            agg.add(done.job, done.result())
            if (i < tier['histories'] and time.time() < deadline
                    and len(agg.mismatches) < 8 and len(agg.harness) < 5):
                submit()
    return i


# ---------------------------------------------------------------- violations

def known_match(findings, mm, job):
    for f in findings.get('findings', []):
        if f.get('property') != PID:
            continue
        m = f.get('match', {})
        if m.get('class') and m['class'] != mm['class']:
            continue
        if m.get('path_contains') and m['path_contains'] not in mm['path']:
            continue
        if m.get('option') and m['option'] not in mm['call']['options']:
            continue
        return f
    return None


def convert_native(job, res, sc, log):
    """A violation seen with real addresses is re-expressed as a simulated
    run that replays the recorded addresses, so that it is exactly
    repeatable.  Returns (job, res) of the converted run or None."""
    logs = res['mismatch'].get('native_address_logs')
    if not logs:
        return None
    cls = res['mismatch']['class']
    j = copy.deepcopy(job)
    j['mode']['addr'] = 'sim'
    j['arm'] = 'sim-recorded'
    j['steps'] = j['steps'][:res['mismatch']['step'] + 1]
    for st, lg in zip(j['steps'], logs):
        st['perturb'] = ([{'kind': 'relayout', 'layout': ['recorded', lg]}]
                         + [p for p in st['perturb'] if p['kind'] != 'relayout'])
    r = driver.run_job(j, sc)
    ok = ('harness_error' not in r and r.get('mismatch')
          and r['mismatch']['class'] == cls)
    log('native violation %s as recorded-address replay' % (
        'reproduced' if ok else 'NOT reproduced'))
    return (j, r) if ok else None


def handle_mismatches(agg, sc, tier, findings, log):
    """Minimise one mismatch per class, write replay files, print the
    VIOLATION / KNOWN-FINDING lines.  Returns number of new violations."""
    by_class = {}
    for job, res in agg.mismatches:
        by_class.setdefault(json.dumps(res['mismatch']['class']), []).append((job, res))
    nviol = 0
    known_printed = set()
    for cls, lst in sorted(by_class.items()):
        job, res = min(lst, key=lambda jr: len(jr[0]['steps']))
        mm = res['mismatch']
        f = known_match(findings, mm, job)
        if f is not None:
            if f['id'] not in known_printed:
                print('KNOWN-FINDING: property=%s %s' % (PID, f['what']))
                known_printed.add(f['id'])
            continue
        native = None
        if job['mode']['addr'] == 'native':
            native = 'found with native addresses'
            conv = convert_native(job, res, sc, log)
            if conv is not None:
                job, res = conv
            else:
                native += ' (recorded-address replay did not reproduce; replay may be flaky)'
        for k in ('native_address_logs',):
            res['mismatch'].pop(k, None)
        if nviol < tier['max_min']:
            mjob, mres, info = minimise.minimise(job, res, sc, log, wall=90)
        else:
            mjob, mres, info = job, res, {'skipped': True}
        mres['mismatch'].pop('native_address_logs', None)
        if native is None and not tier.get('no_native_confirm'):
            native = minimise.native_confirm(mjob, mres, sc, log)
        path = driver.replay_path(PID, str(job['seed']))
        with open(path, 'w') as fh:
            json.dump({'property': PID, 'seed': job['seed'], 'hashseed': mres.get('hashseed'),
                       'mismatch': mres['mismatch'], 'native_confirmed': native,
                       'minimisation': info, 'original_steps': len(job['steps']),
                       'readable': describe(mjob, mres), 'job': mjob}, fh, indent=1)
        print('VIOLATION property=%s replay=%s' % (PID, path))
        print('  class=%s step=%d path=%s' % (cls, mres['mismatch']['step'], mres['mismatch']['path']))
        print('  expected=%s' % mres['mismatch']['expected'][:200])
        print('  observed=%s' % mres['mismatch']['observed'][:200])
        print('  steps: %d -> %d, native_confirmed=%s' % (len(job['steps']), len(mjob['steps']), native))
        nviol += 1
    return nviol


def regressions(sc, log):
    """Replay every committed replay of a defect recorded as fixed: a fixed
    entry suppresses nothing, the violation is reported again if it returns."""
    d = os.path.join(driver.VERIF, 'findings')
    out = {'replayed': 0, 'reproduced': []}
    if not os.path.isdir(d):
        return out
    files = sorted(f for f in os.listdir(d) if f.startswith(PID + '-fixed') and f.endswith('.json'))

    def one(f):
        with open(os.path.join(d, f)) as fh:
            rp = json.load(fh)
        return f, rp, driver.run_job(rp['job'], sc, hashseed=rp.get('hashseed'))
    for f, rp, res in driver.pool_map(one, files):
        out['replayed'] += 1
        if 'harness_error' in res:
            raise driver.HarnessError('replay of %s failed: %s' % (f, res['harness_error'][-800:]))
        if res.get('mismatch') and res['mismatch']['class'] == rp['mismatch']['class']:
            out['reproduced'].append(os.path.join(d, f))
    log('replayed %d fixed-defect files, %d reproduce' % (out['replayed'], len(out['reproduced'])))
    return out


def replay(path, sc):
    with open(path) as fh:
        rp = json.load(fh)
    res = driver.run_job(rp['job'], sc, hashseed=rp.get('hashseed'))
    if 'harness_error' in res:
        print('HARNESS-ERROR: ' + res['harness_error'][-2000:])
        return 2
    if res['mismatch']:
        print('VIOLATION property=%s replay=%s' % (PID, path))
        print('  step=%d path=%s' % (res['mismatch']['step'], res['mismatch']['path']))
        print('  expected=%s' % res['mismatch']['expected'][:300])
        print('  observed=%s' % res['mismatch']['observed'][:300])
        same = (rp.get('mismatch') or {}).get('class') == res['mismatch']['class']
        print('  same class as recorded: %s' % same)
        return 1
    print('replay did not reproduce a violation (fingerprint %s)' % res['fingerprint'])
    return 0


# ---------------------------------------------------------------- main

def main(argv=None):
    ap = argparse.ArgumentParser()
    ap.add_argument('--tier', default=os.environ.get('VERIF_TIER', 'quick'))
    ap.add_argument('--replay')
    ap.add_argument('--gen-digest')
    ap.add_argument('--explore-s', type=float)
    ap.add_argument('--histories', type=int)
    ap.add_argument('--no-selftest', action='store_true')
    ap.add_argument('--no-minimise', action='store_true')
    args = ap.parse_args(argv)
    if args.gen_digest:
        wl = workload.build(driver.REPO)
        for s in args.gen_digest.split(','):
            print(job_digest(history.gen_history(int(s), wl, {'arm': 'sim'})))
        return 0
    t0 = time.time()
    base = int(os.environ.get('VERIF_SEED', '0'))
    sc = driver.Scratch()

    def log(msg):
        print('[c03 %6.1fs] %s' % (time.time() - t0, msg), flush=True)
    try:
        try:
            driver.warm_pycache(sc)
        except driver.HarnessError as err:
            print('HARNESS-ERROR: %s' % err)
            return 2
        if args.replay:
            return replay(args.replay, sc)
        tier = dict(TIERS[args.tier])
        if args.explore_s:
            tier['explore_s'] = args.explore_s
        if args.histories:
            tier['histories'] = args.histories
        if args.no_minimise:
            tier['max_min'] = 0
            tier['no_native_confirm'] = True
        log('VERIF_SEED=%d tier=%s workers=%d aslr_off=%s' % (
            base, args.tier, driver.NPROC, bool(driver.setarch_prefix())))
        wl = workload.build(driver.REPO)
        wl_full = None
        if tier['full_every']:
            wl_full = {'inputs': workload.full_structures(driver.REPO), 'params': wl['params']}
        log('workload: %d inputs in %d families, %d parameter files' % (
            len(wl['inputs']), len({i['family'] for i in wl['inputs']}), len(wl['params'])))
        st = {'skipped': True, 'ok': True}
        if not args.no_selftest:
            st = self_test(base, wl, sc, tier, log)
            log('self-test: %s' % json.dumps(st))
        agg = Agg()
        regress = regressions(sc, log)
        nsub = explore(base, wl, wl_full, sc, tier, agg, log)
        wall_explore = time.time() - t0
        log('explored %d histories, %d calls, verdicts %s' % (agg.histories, agg.calls, agg.verdicts))
        findings = driver.load_findings()
        nviol = handle_mismatches(agg, sc, tier, findings, log)
        # every reference of one (content, options) is 'the same input alone in a
        # fresh interpreter': they were computed by different processes at
        # different times in different directories and must all agree
        ref_conflicts = {k: v for k, v in agg.refs_by_key.items() if len(v) > 1}
        for k, v in sorted(ref_conflicts.items())[:3]:
            path = driver.replay_path(PID, 'refconflict-' + k)
            with open(path, 'w') as fh:
                json.dump({'property': PID, 'kind': 'reference-disagreement', 'key': k,
                           'digests': {d: list(w) for d, w in v.items()},
                           'note': 'two pristine interpreters gave different records for the same content and '
                                   'options; see the named seeds/steps/inputs'}, fh, indent=1)
            print('VIOLATION property=%s replay=%s' % (PID, path))
            print('  two pristine interpreters disagree on the same content+options: %s' % json.dumps(
                {d: list(w) for d, w in v.items()}))
            nviol += 1
        for path in regress['reproduced']:
            print('VIOLATION property=%s replay=%s' % (PID, path))
            print('  a defect recorded as fixed has returned')
            nviol += 1
        wall = time.time() - t0
        ev = {
            'property_id': PID, 'tier': args.tier, 'seed': base, 'level': 'exploration',
            'wall_s': round(wall, 1), 'violations': nviol,
            'coverage': {
                'evaluations': agg.histories,
                'distinct_nontrivial': len(agg.nontrivial),
                'rule': ('one evaluation = one history (4-14 steps; a step = seeded perturbations + one '
                         'API/CLI call + at most one armed fault) run in a fresh worker process and compared '
                         'call by call, bit-exactly, with the same (content, options) run alone in a pristine '
                         'interpreter. A case is one call; its signature is (call kind, path/stream kind, '
                         'enabled option kinds, input family, number of earlier calls capped at 3, fault fired, '
                         'inputs per invocation); it is trivial if no call preceded it in the process and no '
                         'perturbation or fault was applied. distinct_nontrivial counts distinct signatures '
                         'of non-trivial cases.'),
                'samples': agg.samples,
                'calls_executed': agg.calls,
                'calls_compared_with_reference': agg.compared,
                'distinct_case_signatures': len(agg.cases),
                'seed_range': [seed_of(base, 0), seed_of(base, nsub - 1)],
                'history_budget': tier['histories'],
                'budget_exhausted_by': 'count' if nsub >= tier['histories'] else 'wall-clock cap or early stop',
                'histories_per_hour': round(agg.histories / max(wall_explore, 1e-9) * 3600),
                'simulated_days_covered': agg.days,
                'faults_armed': agg.armed, 'faults_fired': agg.fired,
                'distinct_crash_sites': len(agg.crash_sites),
                'crash_sites_sample': sorted('%s:%s' % s for s in agg.crash_sites)[:40],
                'distinct_coupled_system_orders': len(agg.orders),
                'perturbations': agg.perturb, 'call_kinds': agg.call_kinds,
                'arms': agg.arms, 'distinct_hash_seeds': len(agg.hashseeds),
                'histories_with_varied_process_environment': getattr(agg, 'env_varied', 0),
                'reference_computations': agg.refs,
                'census_passes': agg.census, 'traced_line_events': agg.line_events,
                'in_flight_state_windows_seen': agg.state_windows,
                'crashes_aimed_into_state_windows': agg.aimed,
                'reference_hash_seed': 0,
                'calls_skipped_because_reference_exceeded_time_limit': getattr(agg, 'skipped_slow', 0),
                'distinct_reference_keys': len(agg.refs_by_key),
                'reference_keys_computed_by_several_interpreters': sum(
                    1 for v in agg.ref_workers.values() if len(v) > 1),
                'reference_disagreements': len(ref_conflicts),
                'verdicts': agg.verdicts,
                'self_test': st, 'seam_notes': sorted(agg.notes),
                'fixed_defect_replays': regress,
                'components': REAL_STUB,
                'harness_errors': len(agg.harness),
                'exhaustive': False,
            },
            'assumptions': [
                'the reference is the same code: defects shared by every execution are invisible',
                'logging configuration, locale and Python version are held equal on both sides',
                'simulated addresses are 16-byte aligned and distinct; any such layout is realisable',
                'sequences of calls only; no concurrent callers',
            ],
        }
        driver.write_evidence(PID, ev)
        if not st['ok']:
            # a self-test discrepancy on a tree that also shows violations is
            # a symptom of them (e.g. results depending on addresses make the
            # native one-shot differ); alone it is a harness error
            for p in st['problems'][:6]:
                print(('NOTE: self-test: ' if nviol else 'HARNESS-ERROR: ') + p)
            if not nviol:
                return 2
        if agg.harness:
            for seed, err in agg.harness[:5]:
                print('HARNESS-ERROR: seed %s: %s' % (seed, err[-1500:]))
            return 2
        log('done: %d histories, %d violations, %.0f histories/hour' % (
            agg.histories, nviol, ev['coverage']['histories_per_hour']))
        return 1 if nviol else 0
    finally:
        sc.close()


if __name__ == '__main__':
    sys.exit(main())
