"""C12 worker: runs a chunk of record-loss cases against the real propka from
the working tree and judges each with the reference model.

job: {'scratch', 'files': {fid: {'text', 'stem', 'census': bool}},
      'cases': [[fid, fault, delivery, options], ...]}
"""
import hashlib
import io
import json
import os
import shutil
import sys
import traceback


def summary_labels(pka_text):
    """Group labels of the summary section of a .pka file."""
    labels = []
    on = False
    for line in pka_text.splitlines():
        if line.startswith('SUMMARY OF THIS PREDICTION'):
            on = True
            continue
        if on:
            if line.startswith('-----') or not line.strip():
                if labels:
                    break
                continue
            if line.lstrip().startswith('Group'):
                continue
            labels.append(line[3:12])
    return labels


def run_case(text, stem, delivery, options, workdir, suffix='.pdb'):
    """-> outcome {'exc': [type, msg], 'where': ...} | {'labels': [...]}"""
    import propka.run as run
    os.makedirs(workdir, exist_ok=True)
    os.chdir(workdir)
    old_out, old_argv = sys.stdout, sys.argv
    sys.stdout = io.StringIO()
    try:
        try:
            if delivery == 'stream':
                mol = run.single(stem + suffix, list(options), stream=io.StringIO(text))
            elif delivery == 'path':
                p = os.path.join(workdir, stem + suffix)
                with open(p, 'w', encoding='utf-8') as fh:
                    fh.write(text)
                mol = run.single(p, list(options))
            else:
                p = os.path.join(workdir, stem + suffix)
                with open(p, 'w', encoding='utf-8') as fh:
                    fh.write(text)
                sys.argv = ['propka3'] + list(options) + [p]
                run.main()
                mol = None
        except Exception as err:
            tb = traceback.extract_tb(err.__traceback__)
            where = None
            for fr in reversed(tb):
                if os.sep + 'propka' + os.sep in fr.filename:
                    where = '%s:%s' % (os.path.basename(fr.filename), fr.name)
                    break
            return {'exc': [type(err).__name__, str(err)[:200]], 'where': where}
        if mol is not None:
            conf = mol.conformations['AVR']
            return {'labels': [g.label for g in conf.groups]}
        pk = [f for f in os.listdir(workdir) if f.endswith('.pka')]
        if not pk:
            return {'exc': ['NoOutput', 'CLI run wrote no .pka file'], 'where': None}
        with open(os.path.join(workdir, pk[0])) as fh:
            return {'labels': summary_labels(fh.read())}
    finally:
        sys.stdout, sys.argv = old_out, old_argv
        os.chdir('/')
        shutil.rmtree(workdir, ignore_errors=True)


def main():
    import faulthandler
    faulthandler.enable()
    from sim import c12_model as M
    from sim import refserver
    jobpath = sys.argv[1]
    job = json.loads(refserver.read_blob(jobpath).decode())
    faulthandler.dump_traceback_later(job.get('timeout', 600), exit=True)
    devnull = os.open(os.devnull, os.O_WRONLY)
    os.dup2(devnull, 1)
    os.dup2(devnull, 2)
    res = {'cases': 0, 'failures': [], 'digests': [], 'nontrivial': 0, 'states': [],
           'by_kind': {}, 'expected_errors': 0, 'census_checked': 0, 'labels_checked': 0,
           'deliveries': {}, 'options': {}}
    try:
        import propka
        repo = os.environ.get('VERIF_REPO', '/repo')
        pk = os.path.realpath(propka.__file__)
        if not pk.startswith(os.path.realpath(repo) + os.sep):
            raise RuntimeError('propka imported from %s' % pk)
        cfg = M.Cfg(repo)
        prepared = {}
        for fid, f in job['files'].items():
            recs = M.split_records(f['text'])
            cen = M.census(recs, cfg) if f.get('census') else None
            if cen is not None and f.get('census_exclude'):
                ex = set(f['census_exclude'])
                cen = [t for t in cen if t[0] not in ex]
            prepared[fid] = (recs, cen)
        seen_states = set()
        for n, (fid, fault, delivery, options) in enumerate(job['cases']):
            recs, cen = prepared[fid]
            f = job['files'][fid]
            fault = tuple(fault) if fault[0] != 'F5' else ('F5', [tuple(x) for x in fault[1]])
            keep, lost = M.apply_fault(recs, fault)
            text = M.render(recs, keep)
            suffix = f.get('suffix', '.pdb')
            keep_protons = '-k' in options
            survivors = [recs[i] for i in keep]
            expect_error = f.get('expect_error') or M.usable_records(survivors, cfg, keep_protons) == 0
            expected = None
            # the census is observed on the container run.single returns; a CLI
            # run only shows the .pka summary, which by design omits groups
            # penalised by covalent coupling (e.g. Asp of an N-terminal residue)
            if cen is not None and not expect_error and delivery != 'cli':
                # a label is expected iff none of its defining records (one per
                # conformation that carries the atom) was lost
                gone = set(lab for lab, idx, deps in cen
                           if idx in lost or any(d in lost for d in deps))
                if f.get('multiconf'):
                    # conformations are topped up from one another: a side-chain
                    # group whose defining atom survives in ANY conformation
                    # remains (termini keep the strict rule: their status
                    # depends on neighbouring records of their own conformation)
                    alive = set(lab for lab, idx, deps in cen
                                if idx not in lost and not any(d in lost for d in deps))
                    gone = set(lab for lab in gone
                               if lab[:2] in ('N+', 'C-') or lab not in alive)
                expected = []
                for lab, idx, deps in cen:
                    if lab not in gone and lab not in expected:
                        expected.append(lab)
            out = run_case(text, f['stem'], delivery, options,
                           os.path.join(job['scratch'], 'c%05d' % n), suffix)
            verdict = M.judge(out, expect_error, expected)
            res['cases'] += 1
            res['by_kind'][fault[0]] = res['by_kind'].get(fault[0], 0) + 1
            res['deliveries'][delivery] = res['deliveries'].get(delivery, 0) + 1
            ok = ' '.join(options) or 'default'
            res['options'][ok] = res['options'].get(ok, 0) + 1
            if expect_error:
                res['expected_errors'] += 1
            if expected is not None:
                res['census_checked'] += 1
                res['labels_checked'] += len(expected)
            dg = hashlib.sha256((text + '\0' + ok + '\0' + delivery).encode()).hexdigest()[:12]
            trivial = not any(not (recs[i][1][17:20] in cfg.ignore or
                                   (M.is_hydrogen(recs[i][1]) and not keep_protons)) for i in lost)
            res['digests'].append([dg, trivial])
            for st in M.residue_states(recs, lost):
                key = fault[0] + '|' + st[0] + '|' + ','.join(st[1])
                if key not in seen_states:
                    seen_states.add(key)
                    res['states'].append(key)
            if job.get('report_labels') and 'labels' in out and expected is not None:
                have = set(out['labels'])
                res.setdefault('base_missing', {})[fid] = [l for l in expected if l not in have]
                res.setdefault('base_expected', {})[fid] = len(expected)
                verdict = None
            if verdict is not None:
                res['failures'].append({'file': fid, 'case': n, 'fault': list(fault), 'delivery': delivery,
                                        'options': list(options), 'failure': verdict,
                                        'signature': M.failure_signature(verdict)})
    except BaseException:
        res = {'harness_error': traceback.format_exc()}
    finally:
        shutil.rmtree(job['scratch'], ignore_errors=True)
    refserver.write_blob(jobpath + '.out', json.dumps(res).encode())


if __name__ == '__main__':
    main()
