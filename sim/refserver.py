"""Reference oracle for C03: the same (content, options) run alone in a
pristine interpreter (DESIGN §3.9).

The server is forked from the worker *before* the worker has made any propka
call or installed any patch; it never executes propka itself, it only forks a
child per request.  A child of a never-used parent is a fresh interpreter as far
as module state is concerned.
"""
import os
import pickle
import shutil
import sys
import tempfile
import traceback

PARAM_TOKEN = '@PARAM'


def write_blob(path, data):
    """Regular-file I/O at os level: not seen by the file-layer seam and,
    unlike pipe reads, free of timing-dependent chunking (keeps the heap, and
    with it native object addresses, a pure function of the job)."""
    fd = os.open(path, os.O_WRONLY | os.O_CREAT | os.O_TRUNC, 0o600)
    try:
        off = 0
        while off < len(data):
            off += os.write(fd, data[off:])
    finally:
        os.close(fd)


def read_blob(path):
    fd = os.open(path, os.O_RDONLY)
    try:
        size = os.fstat(fd).st_size
        data = os.read(fd, size)
        while len(data) < size:
            more = os.read(fd, size - len(data))
            if not more:
                break
            data += more
        return data
    finally:
        os.close(fd)


def _token(fd):
    os.write(fd, b'x')


def _wait_token(fd):
    b = os.read(fd, 1)
    if not b:
        raise EOFError('reference pipe closed')
    return b


def materialise_options(options, param_path):
    return [param_path if o == PARAM_TOKEN else o for o in options]


def canonical_addresses():
    """Give identity hashes one fixed, legal allocation pattern so that the
    reference is a function of (content, options) even when the code under
    test lets results depend on addresses.  (The self-test compares these
    references with a completely unpatched one-shot interpreter.)"""
    import importlib
    import pkgutil
    import propka
    from sim import seams
    mods = []
    for m in pkgutil.iter_modules(propka.__path__):
        if not m.name.startswith('_'):
            try:
                mods.append(importlib.import_module('propka.' + m.name))
            except Exception:
                pass
    seam = seams.AddressSeam()
    seam.set_layout('compact', 0)
    seam.install(mods)


def compute_reference(req, base_tmp):
    """Run in a throw-away child: plain file, empty directory, native
    everything."""
    from sim import record
    import propka.run
    if not req.get('pure'):
        canonical_addresses()
    d = tempfile.mkdtemp(prefix='ref-', dir=base_tmp)
    try:
        os.chdir(d)
        stem = req['stem']
        suffix = req.get('suffix', '.pdb')
        path = os.path.join(d, stem + suffix)
        with open(path, 'w', encoding='utf-8') as fh:
            fh.write(req['text'])
        ppath = None
        if req.get('param_text') is not None:
            pd = os.path.join(d, 'cfg')
            os.mkdir(pd)
            ppath = os.path.join(pd, 'alt.cfg')
            with open(ppath, 'w') as fh:
                fh.write(req['param_text'])
        opts = materialise_options(req['options'], ppath)
        # calculation and writing are observed separately: a caller that does
        # not ask for the .pka must not be expected to see the writer's errors
        try:
            mol = propka.run.single(path, opts, write_pka=False)
        except Exception as err:  # the exception *is* the observation
            return record.exc_record(err)
        rec = {'container': record.container_record(mol)}
        before = record.snapshot_dir(d)
        try:
            mol.write_pka()
        except Exception as err:
            rec['write_exc'] = record.exc_record(err)['exc']
        rec['pka_files'] = record.read_pka_files(d, before)
        return rec
    finally:
        os.chdir('/')
        shutil.rmtree(d, ignore_errors=True)


def _child(req, respath, base_tmp):
    try:
        devnull = os.open(os.devnull, os.O_WRONLY)
        os.dup2(devnull, 1)
        os.dup2(devnull, 2)
        sys.stdout = open(os.devnull, 'w')
        sys.stderr = sys.stdout
        res = ('ok', compute_reference(req, base_tmp))
    except BaseException:
        res = ('harness-error', traceback.format_exc())
    try:
        write_blob(respath, pickle.dumps(res, protocol=4))
    finally:
        os._exit(0)


def _serve(rfd, wfd, base_tmp, reqpath, respath):
    while True:
        try:
            tok = _wait_token(rfd)
        except EOFError:
            os._exit(0)
        if tok == b'q':
            os._exit(0)
        req = pickle.loads(read_blob(reqpath))
        try:
            os.unlink(respath)
        except OSError:
            pass
        pid = os.fork()
        if pid == 0:
            _child(req, respath, base_tmp)
        # a reference that takes longer than the limit is given up: the -d
        # report enumerates 2^n swap combinations and can take for ever with
        # loose coupling thresholds on a large structure
        import time as _t
        limit = float(req.get('time_limit') or REF_TIME_LIMIT)
        t0 = _t.monotonic()
        while True:
            done, _status = os.waitpid(pid, os.WNOHANG)
            if done:
                break
            if _t.monotonic() - t0 > limit:
                try:
                    os.kill(pid, 9)
                except OSError:
                    pass
                os.waitpid(pid, 0)
                write_blob(respath, pickle.dumps(('slow', None), protocol=4))
                break
            _t.sleep(0.02 if _t.monotonic() - t0 < 2 else 0.25)
        _token(wfd)


def _import_all():
    import importlib
    import pkgutil
    import propka
    for m in pkgutil.iter_modules(propka.__path__):
        if not m.name.startswith('_'):
            try:
                importlib.import_module('propka.' + m.name)
            except Exception:
                pass


CANONICAL_HASHSEED = '0'
REF_TIME_LIMIT = 30.0     # seconds of real time for one reference computation


class RefServer:
    """The reference interpreter: a separate python process started with the
    canonical PYTHONHASHSEED (so that dependence on the hash seed shows as a
    difference from the worker, whose seed varies), which imports propka,
    never runs it, and forks one child per request."""

    def __init__(self, base_tmp):
        import subprocess
        self.cache = {}
        self.computed = 0
        self.reqpath = os.path.join(base_tmp, 'ref-req.bin')
        self.respath = os.path.join(base_tmp, 'ref-res.bin')
        req_r, req_w = os.pipe()
        res_r, res_w = os.pipe()
        env = dict(os.environ)
        env['PYTHONHASHSEED'] = CANONICAL_HASHSEED
        # the reference lives in the canonical environment
        for k in [k for k in env if k.startswith('PROPKA_')] + ['TZ', 'LC_ALL', 'COLUMNS',
                                                                'XDG_CONFIG_HOME', 'PYTHONMALLOC', 'PYTHONOPTIMIZE']:
            env.pop(k, None)
        env['HOME'] = env.get('VERIF_CANONICAL_HOME', '/root')
        env['LANG'] = 'C.UTF-8'
        self.proc = subprocess.Popen(
            [sys.executable, '-m', 'sim.refserver', str(req_r), str(res_w), base_tmp,
             self.reqpath, self.respath],
            pass_fds=(req_r, res_w), env=env, stdin=subprocess.DEVNULL,
            stdout=subprocess.DEVNULL, stderr=subprocess.DEVNULL, cwd='/')
        os.close(req_r)
        os.close(res_w)
        self.pid, self.w, self.r = self.proc.pid, req_w, res_r

    def request(self, key, text, stem, options, param_text=None, suffix='.pdb'):
        if key in self.cache:
            return self.cache[key]
        write_blob(self.reqpath, pickle.dumps(
            {'text': text, 'stem': stem, 'options': list(options),
             'param_text': param_text, 'suffix': suffix}, protocol=4))
        _token(self.w)
        _wait_token(self.r)
        try:
            status, res = pickle.loads(read_blob(self.respath))
        except (OSError, EOFError):
            status, res = 'harness-error', 'reference child died'

        if status == 'slow':
            res = {'slow': True}
            self.cache[key] = res
            return res
        if status != 'ok':
            raise RuntimeError('reference failed: ' + str(res))
        self.computed += 1
        self.cache[key] = res
        return res

    def close(self):
        try:
            os.write(self.w, b'q')
            os.close(self.w)
            os.close(self.r)
            self.proc.wait(timeout=30)
        except Exception:
            try:
                self.proc.kill()
            except Exception:
                pass


def _main():
    rfd, wfd = int(sys.argv[1]), int(sys.argv[2])
    base_tmp, reqpath, respath = sys.argv[3:6]
    try:
        _import_all()
        import propka.run  # noqa
    except BaseException:
        os._exit(3)
    _serve(rfd, wfd, base_tmp, reqpath, respath)


if __name__ == '__main__':
    _main()
