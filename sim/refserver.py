"""Reference oracle for C03: the same (content, options) run alone in a
pristine interpreter (DESIGN §3.9).

The server is forked from the worker *before* the worker has made any propka
call or installed any patch; it never executes propka itself, it only forks a
child per request.  A child of a never-used parent is a fresh interpreter as far
as module state is concerned.
"""
import os
import pickle
import shutil
import struct
import sys
import tempfile
import traceback

PARAM_TOKEN = '@PARAM'


def _send(fd, obj):
    data = pickle.dumps(obj, protocol=4)
    os.write(fd, struct.pack('<Q', len(data)))
    off = 0
    while off < len(data):
        off += os.write(fd, data[off:off + 65536])


def _recvn(fd, n):
    buf = b''
    while len(buf) < n:
        chunk = os.read(fd, n - len(buf))
        if not chunk:
            raise EOFError('reference pipe closed')
        buf += chunk
    return buf


def _recv(fd):
    (n,) = struct.unpack('<Q', _recvn(fd, 8))
    return pickle.loads(_recvn(fd, n))


def materialise_options(options, param_path):
    return [param_path if o == PARAM_TOKEN else o for o in options]


def compute_reference(req, base_tmp):
    """Run in a throw-away child: plain file, empty directory, native
    everything."""
    from sim import record
    import propka.run
    d = tempfile.mkdtemp(prefix='ref-', dir=base_tmp)
    try:
        os.chdir(d)
        stem = req['stem']
        suffix = req.get('suffix', '.pdb')
        path = os.path.join(d, stem + suffix)
        with open(path, 'w') as fh:
            fh.write(req['text'])
        ppath = None
        if req.get('param_text') is not None:
            pd = os.path.join(d, 'cfg')
            os.mkdir(pd)
            ppath = os.path.join(pd, 'alt.cfg')
            with open(ppath, 'w') as fh:
                fh.write(req['param_text'])
        opts = materialise_options(req['options'], ppath)
        before = record.snapshot_dir(d)
        try:
            mol = propka.run.single(path, opts)
        except Exception as err:  # the exception *is* the observation
            return record.exc_record(err)
        return {'container': record.container_record(mol),
                'pka_files': record.read_pka_files(d, before)}
    finally:
        os.chdir('/')
        shutil.rmtree(d, ignore_errors=True)


def _child(req, wfd, base_tmp):
    try:
        devnull = os.open(os.devnull, os.O_WRONLY)
        os.dup2(devnull, 1)
        os.dup2(devnull, 2)
        sys.stdout = open(os.devnull, 'w')
        sys.stderr = sys.stdout
        res = ('ok', compute_reference(req, base_tmp))
    except BaseException:
        res = ('harness-error', traceback.format_exc())
    try:
        _send(wfd, res)
    finally:
        os._exit(0)


def _serve(rfd, wfd, base_tmp):
    while True:
        try:
            req = _recv(rfd)
        except EOFError:
            os._exit(0)
        if req is None:
            os._exit(0)
        cr, cw = os.pipe()
        pid = os.fork()
        if pid == 0:
            os.close(cr)
            _child(req, cw, base_tmp)
        os.close(cw)
        try:
            res = _recv(cr)
        except EOFError:
            res = ('harness-error', 'reference child died')
        os.close(cr)
        os.waitpid(pid, 0)
        _send(wfd, res)


class RefServer:
    def __init__(self, base_tmp):
        self.cache = {}
        self.computed = 0
        req_r, req_w = os.pipe()
        res_r, res_w = os.pipe()
        pid = os.fork()
        if pid == 0:
            os.close(req_w)
            os.close(res_r)
            try:
                _serve(req_r, res_w, base_tmp)
            finally:
                os._exit(0)
        os.close(req_r)
        os.close(res_w)
        self.pid, self.w, self.r = pid, req_w, res_r

    def request(self, key, text, stem, options, param_text=None, suffix='.pdb'):
        if key in self.cache:
            return self.cache[key]
        _send(self.w, {'text': text, 'stem': stem, 'options': list(options),
                       'param_text': param_text, 'suffix': suffix})
        status, res = _recv(self.r)
        if status != 'ok':
            raise RuntimeError('reference failed: ' + str(res))
        self.computed += 1
        self.cache[key] = res
        return res

    def close(self):
        try:
            _send(self.w, None)
            os.close(self.w)
            os.close(self.r)
            os.waitpid(self.pid, 0)
        except OSError:
            pass
