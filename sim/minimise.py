"""Delta debugging of a failing C03 history (DESIGN §3.11) and native
confirmation of violations first seen under simulated addresses."""
import copy
import time

from . import driver
from . import pdbtext as P


def _same_class(res, cls):
    return (res is not None and 'harness_error' not in res
            and res.get('mismatch') and res['mismatch']['class'] == cls)


def _prune_inputs(job):
    used = set()
    pused = set()
    for s in job['steps']:
        used.update(s['call']['inputs'])
        if s['call'].get('param'):
            pused.add(s['call']['param'])
        for m in s['call'].get('mols', []):
            if m.get('param'):
                pused.add(m['param'])
    job['inputs'] = {k: v for k, v in job['inputs'].items() if k in used}
    job['params'] = {k: v for k, v in job['params'].items() if k in pused}
    return job


def minimise(job, res, sc, log, wall=90):
    cls = res['mismatch']['class']
    deadline = time.time() + wall
    tests = [0]
    best = [copy.deepcopy(job), res]

    def run_many(cands):
        """Evaluate candidates in parallel; return first (in order) that
        still fails in the same class."""
        if not cands or time.time() > deadline:
            return None
        outs = driver.pool_map(lambda j: driver.run_job(j, sc), cands)
        tests[0] += len(cands)
        for j, r in zip(cands, outs):
            if _same_class(r, cls):
                return j, r
        return None

    def accept(hit):
        if hit:
            j, r = hit
            # the mismatch may now occur earlier: nothing after it matters
            j = copy.deepcopy(j)
            j['steps'] = j['steps'][:r['mismatch']['step'] + 1]
            best[0], best[1] = _prune_inputs(j), r
            return True
        return False

    # 1. cut everything after the failing step
    s = best[1]['mismatch']['step']
    j = copy.deepcopy(best[0])
    j['steps'] = j['steps'][:s + 1]
    accept(run_many([_prune_inputs(j)]))

    # 2. ddmin over the steps before the failing one
    n = 2
    while time.time() < deadline:
        steps = best[0]['steps']
        pre = steps[:-1]
        if not pre:
            break
        n = min(n, len(pre))
        size = max(1, len(pre) // n)
        cands = []
        for a in range(0, len(pre), size):
            c = copy.deepcopy(best[0])
            c['steps'] = pre[:a] + pre[a + size:] + [steps[-1]]
            cands.append(_prune_inputs(c))
        if accept(run_many(cands)):
            n = max(n - 1, 2)
            continue
        if size == 1:
            break
        n = min(len(pre), n * 2)

    # 3. drop perturbations / faults / options / extra inputs, one at a time
    changed = True
    while changed and time.time() < deadline:
        changed = False
        cands = []
        for si, st in enumerate(best[0]['steps']):
            for pi in range(len(st.get('perturb', []))):
                c = copy.deepcopy(best[0])
                del c['steps'][si]['perturb'][pi]
                cands.append(c)
            if st.get('fault'):
                c = copy.deepcopy(best[0])
                del c['steps'][si]['fault']
                cands.append(c)
            call = st['call']
            for gi in range(len(call.get('optgroups', []))):
                c = copy.deepcopy(best[0])
                cc = c['steps'][si]['call']
                g = cc['optgroups'].pop(gi)
                cc['options'] = [t for grp in cc['optgroups'] for t in grp]
                if g == ['-p', '@PARAM']:
                    cc['param'] = None
                cands.append(_prune_inputs(c))
            if call['kind'] == 'cli' and len(call['inputs']) > 1 and 'mols' not in call:
                for ii in range(len(call['inputs'])):
                    c = copy.deepcopy(best[0])
                    del c['steps'][si]['call']['inputs'][ii]
                    cands.append(_prune_inputs(c))
            if call['kind'] == 'steps' and len(call.get('mols', [])) > 1:
                for mi in range(len(call['mols'])):
                    c = copy.deepcopy(best[0])
                    cc = c['steps'][si]['call']
                    del cc['mols'][mi]
                    cc['inputs'] = [m['input'] for m in cc['mols']]
                    cc['schedule'] = [x - (1 if x > mi else 0) for x in cc['schedule'] if x != mi]
                    cands.append(_prune_inputs(c))
            if call.get('suffix'):
                c = copy.deepcopy(best[0])
                del c['steps'][si]['call']['suffix']
                cands.append(c)
        if best[0]['mode'].get('rollover'):
            c = copy.deepcopy(best[0])
            c['mode']['rollover'] = False
            cands.append(c)
        if accept(run_many(cands)):
            changed = True

    # 4. residues of the inputs (failing call's input first)
    order = []
    for st in reversed(best[0]['steps']):
        for iid in st['call']['inputs']:
            if iid not in order:
                order.append(iid)
    for iid in order:
        n = 2
        while time.time() < deadline:
            text = best[0]['inputs'][iid]['text']
            items = P.parse(text)
            res_ = P.residues(items)
            if len(res_) <= 1:
                break
            n = min(n, len(res_))
            size = max(1, len(res_) // n)
            cands = []
            for a in range(0, len(res_), size):
                drop = set(i for _, ix in res_[a:a + size] for i in ix)
                keep = [it for k, it in enumerate(items) if k not in drop]
                if not any(kind == 'A' for kind, _ in keep):
                    continue
                c = copy.deepcopy(best[0])
                c['inputs'][iid]['text'] = P.render(keep)
                cands.append(c)
            if accept(run_many(cands)):
                n = max(n - 1, 2)
                continue
            if size == 1:
                break
            n = min(len(res_), n * 2)
    info = {'tests': tests[0], 'steps': len(best[0]['steps']),
            'wall_s': round(wall - (deadline - time.time()), 1)}
    log('minimised to %d steps in %d tests' % (len(best[0]['steps']), tests[0]))
    return best[0], best[1], info


def native_confirm(job, res, sc, log, tries=32):
    """Re-try a violation found under simulated addresses with real ids:
    vary allocation noise before the failing call and the hash seed."""
    cls = res['mismatch']['class']
    cands = []
    for t in range(tries):
        c = copy.deepcopy(job)
        c['mode']['addr'] = 'native'
        c['hashseed'] = 1000 + t
        last = c['steps'][-1]
        last['perturb'] = [p for p in last.get('perturb', []) if p['kind'] != 'relayout'] + [
            {'kind': 'alloc', 'seed': 7000 + t, 'n': [3, 17, 64, 257, 1000][t % 5],
             'hold': [0.0, 0.3, 0.7][t % 3], 'drop_old': True}]
        cands.append(c)
    outs = driver.pool_map(lambda j: driver.run_job(j, sc), cands)
    hits = sum(1 for r in outs if _same_class(r, cls))
    log('native confirmation: %d of %d native runs reproduce' % (hits, tries))
    return {'tries': tries, 'reproduced': hits}
