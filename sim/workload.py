"""Workload: inputs, parameter files and option sets, built deterministically
from the *working tree's* tests/pdb files (nothing is vendored).

build(repo) -> {"inputs": [ {id,family,stem,text,tags} ... ],
                "params": [ {id,text,note} ... ]}
"""
import os
from . import pdbtext as P

PROTEIN_RES = {'ALA', 'ARG', 'ASN', 'ASP', 'CYS', 'GLY', 'GLN', 'GLU', 'HIS',
               'ILE', 'LEU', 'LYS', 'MET', 'PHE', 'PRO', 'SER', 'THR', 'TRP',
               'TYR', 'VAL'}


def _read(repo, name):
    with open(os.path.join(repo, 'tests', 'pdb', name)) as fh:
        return fh.read()


def finish(items):
    """Atom records in original order; TER whenever the chain of protein
    records changes and after the last protein record; END."""
    out = []
    prev_chain = None
    for kind, it in items:
        if kind != 'A':
            continue
        if it.tag == 'ATOM  ':
            if prev_chain is not None and it.chain != prev_chain:
                out.append(('L', 'TER'))
            prev_chain = it.chain
        else:
            if prev_chain is not None:
                out.append(('L', 'TER'))
                prev_chain = None
        out.append(('A', it))
    if prev_chain is not None:
        out.append(('L', 'TER'))
    out.append(('L', 'END'))
    return P.renumber_serials(out)


def sphere(items, centres, radius, keep_water=2):
    """Whole residues having an atom within radius of any centre."""
    r2 = radius * radius
    keep = set()
    nwat = 0
    for key, idx in P.residues(items):
        hit = False
        for i in idx:
            p = items[i][1].xyz
            if any(P.dist2(p, c) <= r2 for c in centres):
                hit = True
                break
        if hit:
            if key[3] == 'HOH':
                nwat += 1
                if nwat > keep_water:
                    continue
            keep.update(idx)
    return [items[i] for i in sorted(keep)]


def find_atoms(items, resname=None, name=None, chain=None, resnum=None, tag=None):
    out = []
    for kind, it in items:
        if kind != 'A':
            continue
        if resname is not None and it.resname.strip() != resname:
            continue
        if name is not None and it.name.strip() != name:
            continue
        if chain is not None and it.chain != chain:
            continue
        if resnum is not None and int(it.resnum) != resnum:
            continue
        if tag is not None and it.tag != tag:
            continue
        out.append(it)
    return out


def segment(items, start, n):
    res = [r for r in P.residues(items) if items[r[1][0]][1].tag == 'ATOM  ']
    chosen = res[start:start + n]
    idx = [i for _, ix in chosen for i in ix]
    return [items[i] for i in idx]


# ---------------------------------------------------------------- variants

def v_jitter(items, key, amp=0.3):
    out = []
    for n, (kind, it) in enumerate(items):
        if kind == 'A':
            u = P.det_unit('jit', key, n)
            out.append(('A', it.with_xyz(it.x + (u[0]-.5)*2*amp,
                                         it.y + (u[1]-.5)*2*amp,
                                         it.z + (u[2]-.5)*2*amp)))
        else:
            out.append((kind, it))
    return out


def v_delete_residue(items, which):
    res = P.residues(items)
    prot = [r for r in res if r[0][3] in PROTEIN_RES]
    if len(prot) < 3:
        return None
    victim = prot[which % len(prot)]
    drop = set(victim[1])
    return [it for i, it in enumerate(items) if i not in drop]


def v_to_ala(items, which):
    """Mutate one non-Gly/Ala/Pro residue to ALA (drop side chain beyond CB)."""
    res = [r for r in P.residues(items)
           if r[0][3] in PROTEIN_RES and r[0][3] not in ('GLY', 'ALA', 'PRO')]
    if not res:
        return None
    victim = res[which % len(res)]
    keepnames = {'N', 'CA', 'C', 'O', 'CB', 'OXT'}
    out = []
    vs = set(victim[1])
    for i, (kind, it) in enumerate(items):
        if i in vs:
            if it.name.strip() in keepnames:
                out.append(('A', it.with_resname('ALA')))
        else:
            out.append((kind, it))
    return out


def v_swap_chains(items):
    chains = []
    for kind, it in items:
        if kind == 'A' and it.chain not in chains:
            chains.append(it.chain)
    if not chains:
        return None
    if len(chains) == 1:
        mp = {chains[0]: 'B' if chains[0] != 'B' else 'A'}
    else:
        mp = {chains[0]: chains[1], chains[1]: chains[0]}
    return [('A', it.with_chain(mp.get(it.chain, it.chain))) if kind == 'A'
            else (kind, it) for kind, it in items]


def v_altloc(items, which, key):
    """Give one protein residue alternate locations A and B (B jittered)."""
    res = [r for r in P.residues(items) if r[0][3] in PROTEIN_RES]
    if not res:
        return None
    victim = res[which % len(res)]
    vs = victim[1]
    out = []
    for i, (kind, it) in enumerate(items):
        if kind == 'A' and i in vs:
            continue
        if i == vs[-1] + 1 or (i == len(items) - 1 and False):
            pass
        out.append((kind, it))
    # insert A then B copies at the victim's position
    pos = vs[0]
    a = [('A', items[i][1].with_altloc('A')) for i in vs]
    b = []
    for n, i in enumerate(vs):
        it = items[i][1]
        u = P.det_unit('alt', key, n)
        b.append(('A', it.with_altloc('B').with_xyz(it.x + (u[0]-.5)*.4,
                                                    it.y + (u[1]-.5)*.4,
                                                    it.z + (u[2]-.5)*.4)))
    before = [x for i, x in enumerate(items) if i < pos]
    after = [x for i, x in enumerate(items) if i > vs[-1]]
    return before + a + b + after


def v_altloc3(items, which, key):
    """Three alternate locations A/B/C for one protein residue; the last atom
    of the residue is missing from the A copy (so it must be topped up from B
    or C, which disagree about its position)."""
    res = [r for r in P.residues(items) if r[0][3] in PROTEIN_RES]
    if not res:
        return None
    victim = res[which % len(res)]
    vs = victim[1]
    if len(vs) < 5:
        return None
    copies = []
    for tag, amp in (('A', 0.0), ('B', 0.4), ('C', 0.7)):
        for n, i in enumerate(vs):
            if tag == 'A' and n == len(vs) - 1:
                continue
            it = items[i][1]
            u = P.det_unit('alt3', key, tag, n)
            copies.append(('A', it.with_altloc(tag).with_xyz(it.x + (u[0]-.5)*amp,
                                                              it.y + (u[1]-.5)*amp,
                                                              it.z + (u[2]-.5)*amp)))
    before = [x for i, x in enumerate(items) if i < vs[0]]
    after = [x for i, x in enumerate(items) if i > vs[-1]]
    return before + copies + after


def v_models(items, key):
    atoms = [x for x in items if x[0] == 'A']
    m2 = v_jitter(atoms, ('model', key), amp=0.25)
    body1 = finish(atoms)[:-1]
    body2 = finish(m2)[:-1]
    return ([('L', 'MODEL        1')] + body1 + [('L', 'ENDMDL')]
            + [('L', 'MODEL        2')] + body2 + [('L', 'ENDMDL'), ('L', 'END')])


def v_add_amide_h(items):
    """Add backbone amide H atoms (for --keep-protons) by simple geometry."""
    res = P.residues(items)
    out = list(items)
    inserts = []
    prev = None
    for key, idx in res:
        names = {items[i][1].name.strip(): items[i][1] for i in idx}
        if (prev is not None and key[3] in PROTEIN_RES and key[3] != 'PRO'
                and 'N' in names and 'CA' in names and 'C' in prev
                and prev['C'].chain == names['N'].chain
                and P.dist2(prev['C'].xyz, names['N'].xyz) < 4.0):
            n = names['N'].xyz
            v = P.add(P.unit(P.sub(n, prev['C'].xyz)),
                      P.unit(P.sub(n, names['CA'].xyz)))
            h = P.add(n, P.unit(v), 1.01)
            rec = names['N'].with_name(' H  ', 'H').with_xyz(*h)
            inserts.append((idx[-1], rec))
        prev = names if key[3] in PROTEIN_RES else None
    for pos, rec in sorted(inserts, key=lambda t: -t[0]):
        out.insert(pos + 1, ('A', rec))
    return out if inserts else None


def v_toggle_oxt(items):
    """Remove OXT if present on the last protein residue, else add one."""
    res = [r for r in P.residues(items) if r[0][3] in PROTEIN_RES]
    if not res:
        return None
    key, idx = res[-1]
    names = {items[i][1].name.strip(): (i, items[i][1]) for i in idx}
    if 'OXT' in names:
        drop = names['OXT'][0]
        return [x for i, x in enumerate(items) if i != drop]
    if not all(n in names for n in ('C', 'CA', 'O')):
        return None
    c, ca, o = names['C'][1], names['CA'][1], names['O'][1]
    v = P.add(P.unit(P.sub(c.xyz, ca.xyz)), P.unit(P.sub(c.xyz, o.xyz)))
    pos = P.add(c.xyz, P.unit(v), 1.25)
    rec = o.with_name(' OXT', 'O').with_xyz(*pos)
    out = list(items)
    out.insert(idx[-1] + 1, ('A', rec))
    return out


def _hetero(template, name, resname, chain, resnum, xyz, element):
    rec = template.with_tag('HETATM').with_name(name, element)
    rec = rec.with_resname(resname).with_chain(chain).with_resnum(resnum)
    return rec.with_altloc(' ').with_xyz(*xyz)


def v_unknown_element(items):
    """Append a hetero atom whose element propka's valence table lacks
    (first sight mutates a process-lifetime dict: source S2), attached to one
    heavy atom like a dummy attachment point (1.5 A beyond a CB, away from CA)."""
    res = P.residues(items)
    cands = []
    for key, idx in res:
        names = {items[i][1].name.strip(): items[i][1] for i in idx}
        if key[3] in PROTEIN_RES and 'CA' in names and 'CB' in names:
            cands.append((names['CA'], names['CB']))
    if not cands:
        atoms = [it for k, it in items if k == 'A']
        if not atoms:
            return None
        a = atoms[len(atoms) // 2]
        pos = (a.x + 6.0, a.y + 5.0, a.z + 4.0)
    else:
        ca, a = cands[len(cands) // 2]
        pos = P.add(a.xyz, P.unit(P.sub(a.xyz, ca.xyz)), 1.5)
    rec = _hetero(a, ' D1 ', 'UNL', a.chain, 900, pos, 'D')
    return list(items) + [('A', rec)]


def v_unknown_element_in_ring(items):
    """An atom of an element the valence table lacks, placed at the centroid
    of an aromatic ring (six bonded neighbours by the distance rule), plus the
    isolated one of v_unknown_element: the two extremes of bond count."""
    rings = {'PHE': ('CG', 'CD1', 'CD2', 'CE1', 'CE2', 'CZ'),
             'TYR': ('CG', 'CD1', 'CD2', 'CE1', 'CE2', 'CZ'),
             'HIS': ('CG', 'ND1', 'CD2', 'CE1', 'NE2'),
             'TRP': ('CD2', 'CE2', 'CE3', 'CZ2', 'CZ3', 'CH2')}
    for key, idx in P.residues(items):
        if key[3] in rings:
            ring_names = rings[key[3]]
            names = {items[i][1].name.strip(): items[i][1] for i in idx}
            if all(n in names for n in ring_names):
                pts = [names[n].xyz for n in ring_names]
                c = tuple(sum(p[k] for p in pts) / float(len(pts)) for k in range(3))
                a = names[ring_names[0]]
                rec = _hetero(a, ' D2 ', 'UNL', a.chain, 902, c, 'D')
                return list(items) + [('A', rec)]
    return None


def v_ligand_halogen(items, element):
    """Turn a terminal oxygen of a hetero ligand (one heavy neighbour) into a
    covalently bound fluorine or chlorine, dropping its explicit hydrogen if
    it has one: ligand group types (F, Cl) that no shipped structure has."""
    lig = [(i, it) for i, (k, it) in enumerate(items)
           if k == 'A' and it.tag == 'HETATM' and it.resname.strip() not in
           ('HOH', 'ZN', 'CA', 'CL', 'NA', 'MG', 'UNL') and not it.is_hydrogen]
    for i, o in lig:
        if o.line[12:14].strip() != 'O':
            continue
        near = [j for j, a in lig if j != i and a.reskey == o.reskey
                and P.dist2(a.xyz, o.xyz) < 1.75 ** 2]
        if len(near) != 1 or lig[[j for j, _ in lig].index(near[0])][1].line[12:14].strip() != 'C':
            continue
        drop = set(j for j, (k, it) in enumerate(items)
                   if k == 'A' and it.is_hydrogen and it.reskey == o.reskey
                   and P.dist2(it.xyz, o.xyz) < 1.2 ** 2)
        name = ' F1 ' if element == 'F' else 'CL1 '
        new = o.with_name(name, element.upper() if len(element) == 2 else element)
        out = []
        for j, x in enumerate(items):
            if j in drop:
                continue
            out.append(('A', new) if j == i else x)
        return out
    return None


def v_ion_near_acid(items):
    for kind, it in items:
        if kind == 'A' and it.resname in ('ASP', 'GLU') and it.name.strip() in ('OD1', 'OE1'):
            pos = (it.x + 1.6, it.y + 1.6, it.z + 1.2)
            rec = _hetero(it, 'CA  ', ' CA', it.chain, 901, pos, 'CA')
            return list(items) + [('A', rec)]
    return None


def v_three_ion_types(items):
    """Three ions of different types around one acid (the order in which
    ion determinants are listed must not depend on how ion types hash)."""
    for kind, it in items:
        if kind == 'A' and it.resname in ('ASP', 'GLU') and it.name.strip() in ('OD1', 'OE1'):
            out = list(items)
            for n, (nm, res, el, d) in enumerate((('NA  ', ' NA', 'NA', (3.0, 2.0, 1.0)),
                                                  ('CL  ', ' CL', 'CL', (-2.5, 3.0, -2.0)),
                                                  ('MG  ', ' MG', 'MG', (2.0, -3.5, 2.5)))):
                pos = (it.x + d[0], it.y + d[1], it.z + d[2])
                out.append(('A', _hetero(it, nm, res, it.chain, 910 + n, pos, el)))
            return out
    return None


def _rot_to(v, d):
    """Rotation matrix taking unit vector v to unit vector d (Rodrigues)."""
    import math
    ax = (v[1]*d[2]-v[2]*d[1], v[2]*d[0]-v[0]*d[2], v[0]*d[1]-v[1]*d[0])
    sn = math.sqrt(sum(c*c for c in ax))
    cs = sum(a*b for a, b in zip(v, d))
    if sn < 1e-9:
        return [[1, 0, 0], [0, 1, 0], [0, 0, 1]] if cs > 0 else [[-1, 0, 0], [0, -1, 0], [0, 0, 1]]
    k = tuple(a/sn for a in ax)
    K = [[0, -k[2], k[1]], [k[2], 0, -k[0]], [-k[1], k[0], 0]]
    K2 = [[sum(K[i][m]*K[m][j] for m in range(3)) for j in range(3)] for i in range(3)]
    return [[(1 if i == j else 0) + sn*K[i][j] + (1-cs)*K2[i][j] for j in range(3)] for i in range(3)]


def acid_triad(struct, dist=2.5):
    """A hydrogen-bonded chain of three carboxylates, Glu...Asp...Glu, built by
    rigidly docking two complete glutamates of the structure onto the two
    carboxylate oxygens of a complete aspartate.  Such chains make the
    iterative part of the model multi-stable (several self-consistent
    assignments), which ordinary fragments are not."""
    full = {'ASP': ('N', 'CA', 'C', 'O', 'CB', 'CG', 'OD1', 'OD2'),
            'GLU': ('N', 'CA', 'C', 'O', 'CB', 'CG', 'CD', 'OE1', 'OE2')}
    found = {'ASP': [], 'GLU': []}
    for key, idx in P.residues(struct):
        if key[3] in full and struct[idx[0]][1].tag == 'ATOM  ':
            names = {struct[i][1].name.strip(): struct[i][1] for i in idx}
            if all(n in names for n in full[key[3]]):
                found[key[3]].append([names[n] for n in full[key[3]]])
    if not found['ASP'] or len(found['GLU']) < 2:
        return None
    asp, g1, g2 = found['ASP'][0], found['GLU'][0], found['GLU'][1]
    an = {a.name.strip(): a for a in asp}

    def dock(glu, oxy):
        g = {a.name.strip(): a for a in glu}
        u = P.unit(P.sub(an[oxy].xyz, an['CG'].xyz))
        v = P.unit(P.sub(g['OE1'].xyz, g['CD'].xyz))
        R = _rot_to(v, tuple(-x for x in u))
        target = P.add(an[oxy].xyz, u, dist)
        o = g['OE1'].xyz
        out = []
        for a in glu:
            q = P.sub(a.xyz, o)
            r = tuple(sum(R[i][j]*q[j] for j in range(3)) for i in range(3))
            out.append(a.with_xyz(*P.add(r, target)))
        return out
    return ([('A', a) for a in asp] + [('A', a) for a in dock(g1, 'OD1')]
            + [('A', a) for a in dock(g2, 'OD2')])


# ---------------------------------------------------------------- builder

def v_icode(items, which):
    """Give one residue the number of its predecessor plus insertion code
    'A' (25, 26 -> 25, 25A)."""
    res = [r for r in P.residues(items) if r[0][3] in PROTEIN_RES]
    if len(res) < 3:
        return None
    k = 1 + which % (len(res) - 1)
    prev, cur = res[k - 1], res[k]
    if prev[0][0] != cur[0][0]:
        return None
    out = list(items)
    for i in cur[1]:
        r = out[i][1].with_resnum(int(prev[0][1]))
        r._put(26, 27, 'A')
        out[i] = ('A', r)
    return out


def v_negative_numbers(items):
    """Shift the residue numbers of the first chain so that they start at -3."""
    atoms = [it for k, it in items if k == 'A' and it.tag == 'ATOM  ']
    if not atoms:
        return None
    ch = atoms[0].chain
    lo = min(int(a.resnum) for a in atoms if a.chain == ch)
    shift = -3 - lo
    return [('A', it.with_resnum(int(it.resnum) + shift))
            if k == 'A' and it.chain == ch and it.tag == 'ATOM  ' and -999 < int(it.resnum) + shift < 9999
            else (k, it) for k, it in items]


def v_blank_chain(items):
    return [('A', it.with_chain(' ')) if k == 'A' else (k, it) for k, it in items]


def v_drop_oxt(items):
    return [x for x in items if not (x[0] == 'A' and x[1].name.strip() == 'OXT')]


def _mk(fam, tag, items, inputs, extra_tags=()):
    if items is None:
        return
    if not any(k == 'L' and it.startswith('MODEL') for k, it in items):
        items = finish(items)
    text = P.render(items)
    if tag == 'crlf':
        # DOS line endings: a path is read with universal newlines, a
        # StringIO hands the '\r' through to the parser
        text = text.replace('\n', '\r\n')
    elif tag == 'h36':
        # hybrid-36 atom serial numbers (A0000, A0001, ...) as used beyond 99999 atoms
        lines = []
        n = 0
        for line in text.splitlines(True):
            if line[0:6] in P.ATOM_TAGS:
                d = '0123456789ABCDEFGHIJKLMNOPQRSTUVWXYZ'
                v, sfx = n, ''
                for _ in range(4):
                    sfx = d[v % 36] + sfx
                    v //= 36
                line = line[:6] + 'A' + sfx + line[11:]
                n += 1
            lines.append(line)
        text = ''.join(lines)
    elif tag == 'bom':
        # UTF-8 byte-order mark as prepended by some editors: whatever the
        # parser makes of it, every delivery route must make the same
        text = '\ufeff' + text
    elif tag in ('bter', 'cbt'):
        # unpadded TER records as written by PDB2PQR/GROMACS
        text = text.replace('TER   \n', 'TER\n')
        if tag == 'cbt':
            text = text.replace('\n', '\r\n')
    natoms = sum(1 for k, _ in items if k == 'A')
    if natoms < 4:
        return
    iid = '{0}.{1}'.format(fam, tag)
    inputs.append({'id': iid, 'family': fam, 'stem': fam, 'text': text,
                   'natoms': natoms, 'tags': [tag] + list(extra_tags)})


def _family(fam, base, inputs, nvar, salt):
    """base plus nvar variants chosen deterministically by salt."""
    _mk(fam, 'base', base, inputs)
    makers = [
        ('jit', lambda: v_jitter(base, fam)),
        ('del', lambda: v_delete_residue(base, salt)),
        ('ala', lambda: v_to_ala(base, salt + 1)),
        ('swp', lambda: v_swap_chains(base)),
        ('alt', lambda: v_altloc(base, salt + 2, fam)),
        ('mdl', lambda: v_models(base, fam)),
        ('amh', lambda: v_add_amide_h(base)),
        ('oxt', lambda: v_toggle_oxt(base)),
        ('unk', lambda: v_unknown_element(base)),
        ('ion', lambda: v_ion_near_acid(base)),
        ('crlf', lambda: list(base)),
        ('bter', lambda: v_drop_oxt(base)),
        ('cbt', lambda: v_drop_oxt(base)),
        ('ion3', lambda: v_three_ion_types(base)),
        ('bom', lambda: list(base)),
        ('icode', lambda: v_icode(base, salt + 3)),
        ('neg', lambda: v_negative_numbers(base)),
        ('blank', lambda: v_blank_chain(base)),
        ('h36', lambda: list(base)),
        ('alt3', lambda: v_altloc3(base, salt + 4, fam)),
    ]
    for j in range(nvar):
        tag, fn = makers[(salt + j * 3) % len(makers)]
        _mk(fam, tag, fn(), inputs)
    # variants that need a particular feature (a ligand, an aromatic ring, an
    # acid): made wherever the feature exists, for every third family
    def two_chain_cbt():
        chains = []
        for k, it in base:
            if k == 'A' and it.tag == 'ATOM  ' and it.chain not in chains:
                chains.append(it.chain)
        return v_drop_oxt(base) if len(chains) >= 2 else None
    special = [
        ('cbt', two_chain_cbt),
        ('unkc', lambda: v_unknown_element_in_ring(base)),
        ('lgF', lambda: v_ligand_halogen(base, 'F')),
        ('lgCl', lambda: v_ligand_halogen(base, 'Cl')),
    ]
    have = set(i['id'] for i in inputs)
    for n, (tag, fn) in enumerate(special):
        if '{0}.{1}'.format(fam, tag) in have:
            continue
        if nvar and ((salt + n) % 3 == 0 or tag.startswith('lg') or tag == 'cbt'):
            _mk(fam, tag, fn(), inputs)


def build(repo, size='full'):
    S = {n: P.parse(_read(repo, n + '.pdb')) for n in
         ('1FTJ-Chain-A', '1HPX', '3SGB', '4DFR', 'sample-issue-140')}
    inputs = []
    salt = 0

    def fam(name, base, nvar=3, limit=320):
        nonlocal salt
        natoms = sum(1 for k, _ in base if k == 'A')
        if natoms < 8 or natoms > limit:
            return
        _family(name, base, inputs, nvar, salt)
        salt += 1

    hpx, ftj, sgb, dfr = S['1HPX'], S['1FTJ-Chain-A'], S['3SGB'], S['4DFR']
    # coupled Asp25 A/B + ligand in 1HPX
    c = [a.xyz for a in find_atoms(hpx, 'ASP', 'CG', resnum=25)]
    fam('hpx_asp25', sphere(hpx, c, 7.0))
    fam('hpx_asp25s', sphere(hpx, c, 4.0, keep_water=0), nvar=2)
    # a core large enough for groups to count as buried (> 280 heavy atoms
    # within 15 A): burial-dependent code paths do not run in small fragments
    fam('hpx_core', sphere(hpx, c, 13.0, keep_water=0), nvar=0, limit=1100)
    tri = acid_triad(hpx)
    if tri:
        fam('hpx_triad', tri, nvar=2)
    kni = [a.xyz for a in find_atoms(hpx, 'KNI')]
    if kni:
        fam('hpx_kni', sphere(hpx, kni[::6], 5.0))
    # 1FTJ: non-covalently coupled system, Zn, ligand glutamate
    c = [a.xyz for a in find_atoms(ftj, 'GLU', 'CD', resnum=193)]
    c += [a.xyz for a in find_atoms(ftj, 'GLU', 'CD', resnum=274)]
    fam('ftj_glu', sphere(ftj, c, 8.0))
    # large enough to keep the three-group non-covalently coupled system
    # GLU 193 / ligand GLU C / CD of the whole protein
    fam('ftj_sys3', sphere(ftj, c, 14.0, keep_water=0), nvar=0, limit=900)
    c = [a.xyz for a in find_atoms(ftj, 'ZN')]
    fam('ftj_zn', sphere(ftj, c, 9.0))
    # 4DFR: MTX (covalently coupled ligand groups), Ca, Cl
    for ch in ('A', 'B'):
        m = [a.xyz for a in find_atoms(dfr, 'MTX', chain=ch)]
        if m:
            fam('dfr_mtx' + ch.lower(), sphere(dfr, m[::5], 5.0))
            if ch == 'A':
                fam('dfr_mtxs', sphere(dfr, m[::5], 3.2, keep_water=0), nvar=2)
    c = [a.xyz for a in find_atoms(dfr, 'CA', tag='HETATM')]
    fam('dfr_ca', sphere(dfr, c, 9.0))
    c = [a.xyz for a in find_atoms(dfr, 'CL', tag='HETATM')][:1]
    fam('dfr_cl', sphere(dfr, c, 9.0))
    # 3SGB: chain I N-terminus (covalently coupled Asp7 / N+), disulfides
    c = [a.xyz for a in find_atoms(sgb, None, 'N', chain='I')][:1]
    fam('sgb_nti', sphere(sgb, c, 9.0))
    sg = find_atoms(sgb, 'CYS', 'SG')
    for n, a in enumerate(sg[:6:2]):
        fam('sgb_ss%d' % n, sphere(sgb, [a.xyz], 8.0))
    # C-termini with OXT + chain boundaries
    for nm, st in (('hpx', hpx), ('sgb', sgb), ('dfr', dfr)):
        ox = find_atoms(st, None, 'OXT')
        for n, a in enumerate(ox[:2]):
            fam('%s_ct%d' % (nm, n), sphere(st, [a.xyz], 8.5))
    # generic spheres on a stride of CA atoms, and segments
    for nm, st, stride in (('hpx', hpx, 23), ('ftj', ftj, 29), ('sgb', sgb, 31),
                           ('dfr', dfr, 37)):
        cas = find_atoms(st, None, 'CA', tag='ATOM  ')
        for n, a in enumerate(cas[5::stride]):
            if size != 'full' and n % 3:
                continue
            fam('%s_s%02d' % (nm, n), sphere(st, [a.xyz], 7.5), nvar=2)
        nres = len([r for r in P.residues(st)])
        for n, start in enumerate(range(3, nres - 14, 41)):
            if size != 'full' and n % 2:
                continue
            fam('%s_g%02d' % (nm, n), segment(st, start, 3 + (n * 5) % 10), nvar=2)
    # small complete files
    fam('s140', S['sample-issue-140'], nvar=4)
    for n in ('conf-alt-AB-mutant', 'conf-alt-AB', 'conf-alt-BC',
              'conf-model-missing-atoms', 'conf-model-mutant'):
        t = _read(repo, n + '.pdb')
        nm = n.replace('-', '_')
        inputs.append({'id': nm + '.base', 'family': nm, 'stem': nm,
                       'text': t, 'natoms': t.count('\nATOM') + 1,
                       'tags': ['base', 'multiconf']})
    params = build_params(repo)
    return {'inputs': inputs, 'params': params}


def full_structures(repo):
    out = []
    for n in ('1FTJ-Chain-A', '1HPX', '3SGB', '4DFR', '1HPX-warn',
              '3SGB-subset', 'sample-issue-140'):
        t = _read(repo, n + '.pdb')
        out.append({'id': 'full.' + n, 'family': 'full_' + n, 'stem': n,
                    'text': t, 'natoms': t.count('\nATOM'), 'tags': ['full']})
    return out


def build_params(repo):
    """Alternative parameter files derived from the working tree's propka.cfg
    by editing scalars."""
    with open(os.path.join(repo, 'propka', 'propka.cfg')) as fh:
        base = fh.read()

    def edit(text, key, value):
        out = []
        done = False
        for line in text.splitlines():
            w = line.split()
            if w and w[0] == key and not done:
                out.append('{0} {1}'.format(key, value))
                done = True
            else:
                out.append(line)
        if not done:
            return None
        return '\n'.join(out) + '\n'

    edits = [
        ('nopen', [('remove_penalised_group', '0')], 'keep penalised groups'),
        ('shdet', [('shared_determinants', '1')], 'shared determinants on'),
        ('ccc', [('common_charge_centre', '1')], 'common charge centre on'),
        ('shccc', [('shared_determinants', '1'), ('common_charge_centre', '1')],
         'shared determinants and common charge centre on'),
        ('pkas', [('model_pkas', None)], 'other model pKa'),
        ('pkas2', [('model_pkas', 'big')], 'strongly different model pKa (Asp above Glu)'),
        ('coul', [('coulomb_cutoff1', '5.0'), ('coulomb_cutoff2', '12.0')], 'other Coulomb cut-offs'),
        ('desol', [('desolvationPrefactor', '-11.0')], 'other desolvation prefactor'),
        ('cpl2', [('coupling_max_number_of_bonds', '2'), ('max_intrinsic_pka_diff', '3.0')], 'other coupling reach'),
        ('coupl', [('min_interaction_energy', '0.2'), ('min_swap_pka_shift', '0.3')], 'looser coupling thresholds'),
    ]
    params = [{'id': 'default', 'text': None, 'note': 'shipped file (no -p)'}]
    # additions: entries for dictionary/list keywords the parser accepts,
    # including ones the shipped file leaves empty (only keywords the working
    # tree's parser still declares are used)
    try:
        with open(os.path.join(repo, 'propka', 'parameters.py')) as fh:
            declared = fh.read()
    except OSError:
        declared = ''
    additions = [
        ('vale', ['valence_electrons N 6', 'valence_electrons C 3', 'valence_electrons O 7'],
         'valence electron overrides'),
        ('cust', ['custom_model_pkas ASP-CG 4.20', 'custom_model_pkas HIS-CG 7.10',
                  'custom_model_pkas LYS-NZ 10.10'], 'custom model pKa entries'),
        ('ionz', ['ions ZN 1', 'ions XE 1', 'ignore_residues EOH'], 'other ion charges, extra ignorable residue'),
        ('bbhb', ['backbone_NH_hydrogen_bond HIS -0.40 2.00 3.00', 'exclude_sidechain_interactions TYR',
                  'COO_HIS_exception 1.20', 'coulomb_diel 60.0'], 'other hydrogen-bond tables'),
    ]
    for pid, old, new, note in (
            ('sybyl', 'ligand_typing groups', 'ligand_typing sybyl', 'ligand typing by sybyl types only'),
            ('vbad', 'version VersionA', 'version SimpleHB',
             'a version class that fails part-way on this tree: a naturally aborted call')):
        if old in base:
            params.append({'id': pid, 'text': base.replace(old, new, 1), 'note': note})
    for pid, lines, note in additions:
        use = [ln for ln in lines if ln.split()[0] in declared]
        if use:
            params.append({'id': pid, 'text': base.rstrip('\n') + '\n' + '\n'.join(use) + '\n',
                           'note': note})
    for pid, es, note in edits:
        t = base
        for k, v in es:
            if t is None:
                break
            if k == 'model_pkas' and v == 'big':
                t2 = t.replace('model_pkas ASP  3.80', 'model_pkas ASP  6.00', 1)
                t2 = t2.replace('model_pkas GLU  4.50', 'model_pkas GLU  3.00', 1)
                t = t2 if t2 != t else None
            elif k == 'model_pkas':
                t = t.replace('model_pkas ASP  3.80', 'model_pkas ASP  4.10', 1)
                if t == base:
                    t = None
            else:
                t = edit(t, k, v)
        if t is not None and t != base:
            params.append({'id': pid, 'text': t, 'note': note})
    return params
