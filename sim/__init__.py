"""Deterministic simulation harness for jensengroup/propka (see /verif/DESIGN.md)."""
