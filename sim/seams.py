"""Seams the simulator owns inside a worker process (DESIGN §3.2-3.6).

* AddressSeam  - simulated object addresses behind identity hashes
* FileLayer    - wrapper around io.open/builtins.open with armable faults
* SimClock     - stub for propka.output.date
* CrashTracer  - sys.settrace based crash injection / line-event census
* OrderProbe   - observes the iteration order of coupled systems

Every patch is behaviour-preserving when nothing is injected.
"""
import builtins
import errno
import inspect
import io
import os
import random
import sys
import weakref
import datetime as _dt


_REAL_ID = id       # the seams themselves always see real identities


class SimCrash(BaseException):
    """A crash injected at an arbitrary line of propka code."""


class Injected(OSError):
    """Marker base for I/O errors injected by the file layer."""


# --------------------------------------------------------------------------
# addresses
# --------------------------------------------------------------------------

USER_BASE = 0x7f0000000000


class Layout:
    """Seeded injective model of where successive allocations land.
    All addresses are multiples of 16 (CPython object alignment)."""

    MODELS = ('scattered', 'compact', 'compact-desc', 'recycled')

    def __init__(self, model, seed):
        self.recorded = None
        if model == 'recorded':
            # replay of addresses observed in a native run (seed is the list);
            # once exhausted, continue compactly above the highest one
            self.recorded = list(seed)
            self.rpos = 0
            model = 'compact'
            seed = len(self.recorded)
        assert model in self.MODELS
        self.model = model
        self.rng = random.Random(seed)
        self.used = set()
        self.cur = USER_BASE + 16 * self.rng.randrange(1 << 24)
        if self.recorded:
            self.cur = max(self.recorded) + 4096
        self.pool = []

    def _fresh(self, a):
        while a in self.used:
            a += 16 * (1 + self.rng.randrange(8))
        self.used.add(a)
        return a

    def next(self):
        r = self.rng
        if self.recorded is not None and self.rpos < len(self.recorded):
            # recorded addresses are taken as they are: a real allocator
            # reuses the address of a dead object
            a = self.recorded[self.rpos]
            self.rpos += 1
            self.used.add(a)
            return a
        if self.model == 'scattered':
            return self._fresh(USER_BASE + 16 * r.randrange(1 << 28))
        if self.model in ('compact', 'compact-desc'):
            step = 16 * r.choice((3, 3, 4, 4, 4, 5, 6, 8, 12))
            if r.random() < 0.04:
                self.cur = USER_BASE + 16 * r.randrange(1 << 24)
            if self.model == 'compact':
                self.cur += step
            else:
                self.cur -= step
                if self.cur < 0x10000:
                    self.cur = USER_BASE + 16 * r.randrange(1 << 24)
            self.cur = self._fresh(self.cur)
            return self.cur
        # recycled: blocks of a few pools handed out in free-list (shuffled) order
        if not self.pool:
            base = USER_BASE + 4096 * r.randrange(1 << 20)
            blocks = [base + 48 * i for i in range(0, 4096 // 48)]
            r.shuffle(blocks)
            self.pool = blocks
        return self._fresh(self.pool.pop())


def pointer_hash(addr):
    """CPython's _Py_HashPointer on a 64-bit build."""
    y = ((addr >> 4) | (addr << 60)) & 0xFFFFFFFFFFFFFFFF
    if y >= 1 << 63:
        y -= 1 << 64
    if y == -1:
        y = -2
    return y


class AddressSeam:
    def __init__(self):
        self.table = {}
        self.layout = None
        self.installed = []
        self.notes = []
        self.assigned = 0
        self.log = None   # when a list: addresses in registration order

    def set_layout(self, model, seed):
        self.layout = Layout(model, seed)

    def _register(self, obj):
        k = _REAL_ID(obj)
        ent = self.table.get(k)
        if ent is not None and ent[1]() is obj:
            return ent[0]
        addr = self.layout.next() if self.layout is not None else k
        self.assigned += 1
        if self.log is not None:
            self.log.append(addr)
        table = self.table

        def _gone(_ref, k=k):
            ent = table.get(k)
            if ent is not None and ent[1] is _ref:
                del table[k]
        try:
            ref = weakref.ref(obj, _gone)
        except TypeError:
            return k
        table[k] = (addr, ref)
        return addr

    def address(self, obj):
        return self._register(obj)

    def install(self, modules):
        """Patch every class defined in the given modules."""
        seam = self
        classes = []
        for mod in modules:
            for _, cls in inspect.getmembers(mod, inspect.isclass):
                if getattr(cls, '__module__', '') == mod.__name__ and cls not in classes:
                    classes.append(cls)
        # parents before children
        classes.sort(key=lambda c: len(c.__mro__))
        for cls in classes:
            if issubclass(cls, BaseException) or '__slots__' in cls.__dict__:
                continue
            if getattr(cls, '_is_protocol', False):
                continue
            d = cls.__dict__
            if '__hash__' in d:
                orig = d['__hash__']
                if orig is None:
                    continue

                def hashed(self, _orig=orig):
                    v = _orig(self)
                    if v == id(self):
                        return seam.address(self)
                    return v
                try:
                    cls.__hash__ = hashed
                    self.installed.append((cls, '__hash__', orig, True))
                except TypeError:
                    continue
            elif cls.__hash__ is object.__hash__:
                def phash(self):
                    return pointer_hash(seam.address(self))
                try:
                    cls.__hash__ = phash
                    self.installed.append((cls, '__hash__', None, False))
                except TypeError:
                    continue
            if '__init__' in d and inspect.isfunction(d['__init__']):
                oinit = d['__init__']

                def init(self, *a, _oinit=oinit, **k):
                    seam._register(self)
                    return _oinit(self, *a, **k)
                init.__wrapped__ = oinit
                cls.__init__ = init
                self.installed.append((cls, '__init__', oinit, True))
        if not any(n == '__hash__' and had for _, n, _, had in self.installed):
            self.notes.append('no identity-hash class found under propka: '
                              'address seam idle')


class IdSeam:
    """builtins.id() for instances of propka classes, served by a simulated
    allocator that hands the address of a dead object to a later object of the
    same type with probability `reuse` (seeded).  id() promises uniqueness
    among simultaneously live objects only and CPython's free lists recycle
    addresses in just this way, so every sequence produced here is a legal
    allocation pattern; native runs reach such a collision only by chance.
    Objects of other types keep their real id()."""
    BASE = 1 << 60

    def __init__(self, seed, reuse=0.75):
        self.rng = random.Random(seed)
        self.reuse = reuse
        self.table = {}
        self.free = {}
        self.n = 0
        self.assigned = 0
        self.recycled = 0

    def __call__(self, obj):
        t = type(obj)
        mod = getattr(t, '__module__', None)
        if not (isinstance(mod, str) and mod.startswith('propka')):
            return _REAL_ID(obj)
        k = _REAL_ID(obj)
        table, free = self.table, self.free
        ent = table.get(k)
        if ent is not None and ent[1]() is obj:
            return ent[0]
        pool = free.get(t)
        if pool and self.rng.random() < self.reuse:
            addr = pool.pop(self.rng.randrange(len(pool)))
            self.recycled += 1
        else:
            self.n += 1
            addr = self.BASE + 16 * self.n

        def _gone(ref, k=k, t=t, addr=addr):
            ent = table.get(k)
            if ent is not None and ent[1] is ref:
                del table[k]
                free.setdefault(t, []).append(addr)
        try:
            ref = weakref.ref(obj, _gone)
        except TypeError:
            return k
        table[k] = (addr, ref)
        self.assigned += 1
        return addr

    def install(self):
        builtins.id = self

    def uninstall(self):
        builtins.id = _REAL_ID


# --------------------------------------------------------------------------
# files
# --------------------------------------------------------------------------

class _Proxy:
    """File object proxy delegating to the real one; reads/writes/closes are
    counted and can be faulted."""

    def __init__(self, layer, real, path, mode):
        self.__dict__['_l'] = layer
        self.__dict__['_f'] = real
        self.__dict__['_path'] = path
        self.__dict__['_mode'] = mode
        self.__dict__['_written'] = False

    def __getattr__(self, name):
        return getattr(self._f, name)

    def __setattr__(self, name, value):
        setattr(self._f, name, value)

    def __enter__(self):
        self._f.__enter__()
        return self

    def __exit__(self, *exc):
        self.close()
        return False

    def __iter__(self):
        self._l._read_op(self)
        return iter(self._f)

    def __next__(self):
        return next(self._f)

    def read(self, *a):
        self._l._read_op(self)
        return self._f.read(*a)

    def readline(self, *a):
        return self._f.readline(*a)

    def readlines(self, *a):
        self._l._read_op(self)
        return self._f.readlines(*a)

    def write(self, data):
        self.__dict__['_written'] = True
        cut = self._l._write_op(self, data)
        if cut is not None:
            self._f.write(data[:cut])
            self._f.flush()
            raise Injected(errno.ENOSPC, 'No space left on device (injected)',
                           self._path)
        return self._f.write(data)

    def close(self):
        fail = self._written and self._l._close_op(self)
        self._f.close()
        if fail:
            raise Injected(errno.EIO, 'Input/output error on close (injected)',
                           self._path)


class FileLayer:
    """Wraps io.open / builtins.open for the whole process."""

    OPEN_ERRNOS = (errno.EIO, errno.EMFILE, errno.EACCES, errno.ENOENT)

    def __init__(self):
        self.real_open = io.open
        self.installed = False
        self.reset_counts()
        self.armed = None
        self.fired = None
        self.total_opens = 0
        self.only_under = None

    def reset_counts(self):
        self.n = {'open': 0, 'read': 0, 'write': 0, 'close': 0}
        self.opened = []

    def install(self):
        if self.installed:
            return
        layer = self

        def sim_open(file, mode='r', *a, **k):
            return layer._open(file, mode, *a, **k)
        sim_open.__wrapped__ = self.real_open
        io.open = sim_open
        builtins.open = sim_open
        self.installed = True

    def arm(self, kind, k, arg=None):
        self.armed = {'kind': kind, 'k': k, 'arg': arg}
        self.fired = None

    def disarm(self):
        self.armed = None
        self.fired = None

    def _hit(self, kind, counter):
        a = self.armed
        if a is None or a['kind'] != kind or self.fired is not None:
            return False
        return self.n[counter] == a['k']

    def _tracked(self, file):
        if self.only_under is None:
            return True
        try:
            p = os.fspath(file)
        except TypeError:
            return False
        return True

    def _open(self, file, mode='r', *a, **k):
        if isinstance(file, int):
            return self.real_open(file, mode, *a, **k)
        try:
            path = os.fspath(file)
        except TypeError:
            return self.real_open(file, mode, *a, **k)
        if isinstance(path, bytes):
            path = os.fsdecode(path)
        if path == os.devnull:
            return self.real_open(file, mode, *a, **k)
        idx = self.n['open']
        self.n['open'] += 1
        self.total_opens += 1
        self.opened.append((os.path.basename(path), mode))
        if self.armed is not None and self.armed['kind'] == 'open-fail' \
                and self.fired is None and idx == self.armed['k']:
            eno = self.armed['arg'] or errno.EIO
            self.fired = {'kind': 'open-fail', 'at': idx,
                          'file': os.path.basename(path), 'errno': eno}
            raise Injected(eno, os.strerror(eno) + ' (injected)', path)
        real = self.real_open(file, mode, *a, **k)
        return _Proxy(self, real, path, mode)

    def _read_op(self, proxy):
        idx = self.n['read']
        self.n['read'] += 1
        if self.armed is not None and self.armed['kind'] == 'read-fail' \
                and self.fired is None and idx == self.armed['k']:
            self.fired = {'kind': 'read-fail', 'at': idx,
                          'file': os.path.basename(proxy._path)}
            raise Injected(errno.EIO, 'Input/output error (injected)', proxy._path)

    def _write_op(self, proxy, data):
        idx = self.n['write']
        self.n['write'] += 1
        if self.armed is not None and self.armed['kind'] == 'write-torn' \
                and self.fired is None and idx == self.armed['k']:
            frac = self.armed['arg'] if self.armed['arg'] is not None else 0.5
            cut = int(len(data) * frac)
            self.fired = {'kind': 'write-torn', 'at': idx, 'cut': cut,
                          'file': os.path.basename(proxy._path)}
            return cut
        return None

    def _close_op(self, proxy):
        idx = self.n['close']
        self.n['close'] += 1
        if self.armed is not None and self.armed['kind'] == 'close-fail' \
                and self.fired is None and idx == self.armed['k']:
            self.fired = {'kind': 'close-fail', 'at': idx,
                          'file': os.path.basename(proxy._path)}
            return True
        return False


class UnseekableStream(io.StringIO):
    """A pipe-like text stream: seek is not supported."""

    def seek(self, *a):
        raise io.UnsupportedOperation('underlying stream is not seekable (injected)')

    def seekable(self):
        return False


# --------------------------------------------------------------------------
# clock
# --------------------------------------------------------------------------

class SimClock:
    def __init__(self, start_ordinal=738000, tick=0.001):
        self.ordinal = start_ordinal
        self.rollover = False
        self.reads = 0
        self.days_covered = 0
        self.seconds = 0.0        # simulated seconds since the start of the history
        self.tick = tick          # every read of a time function advances the clock by this much

    def epoch(self):
        self.reads += 1
        self.seconds += self.tick
        return (self.ordinal - 719163) * 86400.0 + 43200.0 + self.seconds

    def mono(self):
        self.reads += 1
        self.seconds += self.tick
        return 1000.0 + self.seconds

    def advance(self, days):
        self.ordinal += days
        self.days_covered += days

    def today(self):
        self.reads += 1
        d = _dt.date.fromordinal(self.ordinal)
        if self.rollover:
            self.advance(1)
        return d

    def now(self):
        d = self.today()
        return _dt.datetime(d.year, d.month, d.day, 12, 0, 0)

    def install(self, modules=()):
        """Own every calendar read: the date/datetime classes in the datetime
        module namespace (for imports made later) and every reference to them
        already held by a propka module.  Returns a note if nothing was
        found to patch in propka (seam idle)."""
        clock = self
        real_date, real_datetime = _dt.date, _dt.datetime

        class SimDate(real_date):
            @classmethod
            def today(cls):
                return clock.today()

        class SimDateTime(real_datetime):
            @classmethod
            def now(cls, tz=None):
                return clock.now()

            @classmethod
            def today(cls):
                return clock.now()

            @classmethod
            def utcnow(cls):
                return clock.now()
        hits = 0
        for mod in modules:
            for name, val in list(vars(mod).items()):
                if val is real_date:
                    setattr(mod, name, SimDate)
                    hits += 1
                elif val is real_datetime:
                    setattr(mod, name, SimDateTime)
                    hits += 1
        _dt.date = SimDate
        _dt.datetime = SimDateTime
        # the time module: wall clock, monotonic clocks and sleep are simulated
        # too (a sleep costs nothing and advances the clock); functions already
        # imported by name into propka modules are replaced there as well
        import time as _time
        real = {n: getattr(_time, n) for n in ('time', 'monotonic', 'perf_counter', 'sleep',
                                               'localtime', 'gmtime', 'time_ns', 'monotonic_ns')}

        def sim_sleep(x):
            clock.seconds += max(0.0, float(x))
        sims = {
            'time': lambda: clock.epoch(),
            'time_ns': lambda: int(clock.epoch() * 1e9),
            'monotonic': lambda: clock.mono(),
            'perf_counter': lambda: clock.mono(),
            'monotonic_ns': lambda: int(clock.mono() * 1e9),
            'sleep': sim_sleep,
            'localtime': lambda *a: real['gmtime'](a[0] if a and a[0] is not None else clock.epoch()),
            'gmtime': lambda *a: real['gmtime'](a[0] if a and a[0] is not None else clock.epoch()),
        }
        for mod in modules:
            for name, val in list(vars(mod).items()):
                for n, r in real.items():
                    if val is r:
                        setattr(mod, name, sims[n])
                        hits += 1
        for n, f in sims.items():
            setattr(_time, n, f)
        if not hits:
            return 'no propka module holds datetime.date/datetime: clock seam covers late imports only'
        return None


# --------------------------------------------------------------------------
# crashes
# --------------------------------------------------------------------------

_SIMPLE = (bool, int, float, str, type(None))


class StateProbe:
    """Cheap fingerprint of process-lifetime propka state: simple-valued
    module globals and class attributes, and the simple-valued attributes (plus
    container sizes) of module-level instances of propka classes (the
    singletons).  Used only to *aim* crashes: an interval during which the
    fingerprint differs from its value at the start of a call is in-flight
    state, the place where a crash is most likely to leave something behind."""

    def __init__(self, modules):
        self.slots = []       # (namespace dict-like owner, name)
        self.containers = []  # module- or class-level dict/list/set: size is tracked
        self.singletons = []
        classes = set()
        for mod in modules:
            for name, val in list(vars(mod).items()):
                if name.startswith('__'):
                    continue
                if isinstance(val, _SIMPLE):
                    self.slots.append((mod, name))
                elif isinstance(val, (dict, list, set)):
                    self.containers.append((mod, name))
                elif inspect.isclass(val) and getattr(val, '__module__', '') == mod.__name__:
                    classes.add(val)
                elif (not inspect.ismodule(val) and not inspect.isfunction(val)
                      and type(val).__module__.startswith('propka')):
                    self.singletons.append(val)
        for cls in classes:
            for name, val in list(vars(cls).items()):
                if name.startswith('__'):
                    continue
                if isinstance(val, _SIMPLE):
                    self.slots.append((cls, name))
                elif isinstance(val, (dict, list, set)):
                    self.containers.append((cls, name))
        self.classes = list(classes)

    def fingerprint(self):
        out = []
        for owner, name in self.slots:
            out.append(getattr(owner, name, None))
        for owner, name in self.containers:
            v = getattr(owner, name, None)
            out.append(len(v) if isinstance(v, (dict, list, set)) else -1)
        for inst in self.singletons:
            d = getattr(inst, '__dict__', None)
            if d is None:
                continue
            for k in sorted(d):
                v = d[k]
                if isinstance(v, _SIMPLE):
                    out.append((k, v))
                elif isinstance(v, (dict, list, set, tuple)):
                    out.append((k, len(v)))
        for cls in self.classes:
            out.append(len(vars(cls)))
        return hash(tuple(out))


class CrashTracer:
    """Counts line events per (file, function) of propka code, or raises
    SimCrash at a chosen (function, ordinal) or at a chosen global line-event
    number.  In census mode it can also record the intervals (in line-event
    numbers) during which process-lifetime state differs from its value at
    the start of the call."""

    def __init__(self, root):
        self.root = root
        self.counts = {}
        self.target = None
        self.target_global = None
        self.fired = None
        self.events = 0
        self.state = None
        self.windows = []

    def _check_state(self):
        dirty = self.state.fingerprint() != self._fp0
        if dirty and self._open is None:
            self._open = self.events
        elif not dirty and self._open is not None:
            if len(self.windows) < 400:
                self.windows.append([self._open, self.events])
            self._open = None

    def _local(self, frame, event, arg):
        if event == 'line':
            code = frame.f_code
            key = (code.co_filename, code.co_name)
            c = self.counts.get(key, 0)
            self.counts[key] = c + 1
            n = self.events
            self.events = n + 1
            if self.fired is None:
                t = self.target
                if (t is not None and key == t[0] and c == t[1]) or n == self.target_global:
                    self.fired = {'file': os.path.basename(key[0]), 'func': key[1],
                                  'ordinal': c, 'line': frame.f_lineno, 'event': n}
                    raise SimCrash('crash at %s:%s#%d' % (self.fired['file'], key[1], c))
        elif event == 'return' and self.state is not None:
            self._check_state()
        return self._local

    def _global(self, frame, event, arg):
        if frame.f_code.co_filename.startswith(self.root):
            if self.state is not None:
                self._check_state()
            return self._local
        return None

    def start(self, target=None, target_global=None, state=None):
        self.counts = {}
        self.events = 0
        self.target = target
        self.target_global = target_global
        self.fired = None
        self.state = state
        self.windows = []
        self._open = None
        if state is not None:
            self._fp0 = state.fingerprint()
        sys.settrace(self._global)

    def stop(self):
        sys.settrace(None)
        if self.state is not None and self._open is not None:
            # still dirty at the end of the call: a permanent change, not a window
            self._open = None


# --------------------------------------------------------------------------
# iteration-order probe
# --------------------------------------------------------------------------

class OrderProbe:
    """Logs the order in which coupled systems and their members are yielded
    (observation only: iterating a set does not change it)."""

    def __init__(self):
        self.orders = []
        self.note = None

    def install(self):
        try:
            from propka.conformation_container import ConformationContainer as CC
            orig = CC.get_coupled_systems
        except (ImportError, AttributeError):
            self.note = 'get_coupled_systems missing: order probe idle'
            return
        probe = self

        def wrapped(self, *a, **k):
            for system in orig(self, *a, **k):
                try:
                    probe.orders.append([getattr(g, 'label', '?') for g in system])
                except Exception:
                    pass
                yield system
        wrapped.__wrapped__ = orig
        CC.get_coupled_systems = wrapped

    def take(self):
        o, self.orders = self.orders, []
        return o
