"""Worker: executes one literal history (JSON on stdin) inside this process
and prints the result (JSON) on stdout.  See DESIGN §3-§4.

The job is always a *literal* history; generating it from a seed is the
driver's business, so that a seed run and the replay of its file feed this
process identical bytes.
"""
import gc
import hashlib
import io
import json
import os
import shutil
import sys
import traceback
import zipfile

REPO_ROOT = os.environ.get('VERIF_REPO', '/repo')
CENSUS_TIME_LIMIT = 90.0     # seconds of real time for one traced census pass


def _import_propka():
    import importlib
    import pkgutil
    import propka
    pk_file = os.path.realpath(propka.__file__)
    if not pk_file.startswith(os.path.realpath(REPO_ROOT) + os.sep):
        raise RuntimeError('propka imported from %s, not from %s' % (pk_file, REPO_ROOT))
    mods = []
    for m in pkgutil.iter_modules(propka.__path__):
        if m.name.startswith('_'):
            continue
        try:
            mods.append(importlib.import_module('propka.' + m.name))
        except Exception:  # optional modules must not stop the harness
            pass
    return propka, mods


class Sink(io.StringIO):
    pass


class Executor:
    def __init__(self, job):
        self.job = job
        self.mode = job['mode']
        self.inputs = job['inputs']
        self.params = job['params']
        self.scratch = job['scratch']
        self.events = []
        self.stats = {
            'calls': 0, 'compared': 0, 'faults_armed': {}, 'faults_fired': {},
            'crash_sites': [], 'orders': [], 'perturb': {}, 'call_kinds': {},
            'census_runs': 0, 'line_events': 0, 'days': 0, 'refs': 0,
            'cases': [],
        }
        self.notes = []
        self.held = []
        self.ncwd = 0
        self.nfile = 0
        self.cwd = None
        self.mismatch = None
        self.any_fault_fired = False
        self.prior_calls = 0
        self.ref_digests = []
        self.census_cache = {}
        self.probes = [[id(object()), 0, 0]]

    # ----------------------------------------------------------- set-up
    def setup(self):
        self.probes.append([id(object()), 1, 0])
        from sim import refserver, seams
        self.seams = seams
        os.makedirs(self.scratch, exist_ok=True)
        self.propka, self.mods = _import_propka()
        self.ref = refserver.RefServer(self.scratch)
        m = self.mode
        self.addr = None
        self.addr_logs = []
        if m.get('addr') in ('sim', 'native'):
            # 'native': the seam passes real id() values through and records
            # them, so that a violation can be replayed exactly (§3.3)
            self.addr = seams.AddressSeam()
            if m['addr'] == 'sim':
                self.addr.set_layout(m['layout'][0], m['layout'][1])
            self.addr.install(self.mods)
            self.notes += self.addr.notes
        self.idseam = None
        if m.get('addr') == 'sim' and m.get('idseam', True):
            # direct uses of id() on propka objects: simulated allocator that
            # recycles the addresses of dead objects (legal, rare natively)
            lseed = m['layout'][1] if isinstance(m['layout'][1], int) else len(m['layout'][1])
            self.idseam = seams.IdSeam(lseed * 31 + 7)
            self.idseam.install()
        self.files = None
        if m.get('filelayer', True):
            self.files = seams.FileLayer()
            self.files.install()
        self.clock = None
        if m.get('clock', True):
            self.clock = seams.SimClock(m.get('clock_start', 738000), m.get('clock_tick', 0.001))
            self.clock.rollover = bool(m.get('rollover'))
            note = self.clock.install(self.mods)
            if note:
                self.notes.append(note)
        self.probe = None
        if m.get('probe', True):
            self.probe = seams.OrderProbe()
            self.probe.install()
            if self.probe.note:
                self.notes.append(self.probe.note)
        self.tracer = seams.CrashTracer(os.path.join(os.path.realpath(REPO_ROOT), 'propka'))
        self.state_probe = seams.StateProbe(self.mods)
        self.new_cwd([])
        self.probes.append([id(object()), 2, 0])

    # ----------------------------------------------------------- helpers
    def real_open(self, *a, **k):
        if self.files is not None:
            return self.files.real_open(*a, **k)
        return io.open(*a, **k)

    def write_file(self, path, text):
        with self.real_open(path, 'w', encoding='utf-8') as fh:
            fh.write(text)

    def new_cwd(self, decoys, call=None):
        self.ncwd += 1
        d = os.path.join(self.scratch, 'cwd%03d' % self.ncwd)
        os.makedirs(d)
        os.chdir(d)
        self.cwd = d
        for dec in decoys:
            kind = dec['kind']
            if kind == 'cfg':
                self.write_file(os.path.join(d, 'propka.cfg'), dec['text'])
            elif kind == 'bonds':
                self.write_file(os.path.join(d, 'protein_bonds.json'), '{"ALA": {}}')
            elif kind == 'stale_pka':
                # longer than any output, so that an overwrite that does not
                # truncate, or an append, leaves a visible tail
                stale = 'stale line\n' + ''.join(
                    'stale pka content %05d\n' % n for n in range(6000))
                for stem in dec['stems']:
                    self.write_file(os.path.join(d, stem + '.pka'), stale)
                    self.write_file(os.path.join(d, stem + '_alt_state.pka'), stale)
            elif kind == 'same_pdb':
                self.write_file(os.path.join(d, dec['stem'] + '.pdb'), dec['text'])

    def new_input_dir(self):
        self.nfile += 1
        d = os.path.join(self.scratch, 'in%03d' % self.nfile)
        os.makedirs(d)
        return d

    def param_path(self, pid):
        if pid is None or self.params.get(pid) is None:
            return None
        d = os.path.join(self.scratch, 'cfg')
        os.makedirs(d, exist_ok=True)
        p = os.path.join(d, pid + '.cfg')
        if not os.path.exists(p):
            self.write_file(p, self.params[pid])
        return p

    # ----------------------------------------------------------- perturbations
    def perturb(self, p, step):
        kind = p['kind']
        self.stats['perturb'][kind] = self.stats['perturb'].get(kind, 0) + 1
        if kind == 'chdir':
            self.new_cwd(p.get('decoys', []))
        elif kind == 'alloc':
            self.alloc_noise(p)
        elif kind == 'gc':
            op = p['op']
            if op == 'collect':
                gc.collect()
            elif op == 'disable':
                gc.disable()
            elif op == 'enable':
                gc.enable()
            elif op == 'threshold':
                gc.set_threshold(*p['args'])
        elif kind == 'relayout':
            if self.addr is not None and self.mode.get('addr') == 'sim':
                self.addr.set_layout(p['layout'][0], p['layout'][1])
        elif kind == 'clock':
            if self.clock is not None:
                self.clock.advance(p['days'])

    def alloc_noise(self, p):
        class _Inst:
            pass
        import random
        r = random.Random(p['seed'])
        objs = []
        for _ in range(p['n']):
            k = r.randrange(4)
            if k == 0:
                o = _Inst()
                o.a = 1
                o.b = [0.0]
            elif k == 1:
                o = {'sidechain': [], 'backbone': [], 'coulomb': []}
            elif k == 2:
                o = [None] * r.randrange(1, 12)
            else:
                o = bytearray(r.randrange(16, 200))
            objs.append(o)
        r.shuffle(objs)
        keep = int(len(objs) * p.get('hold', 0.3))
        if p.get('drop_old', True):
            self.held = []
        self.held.append(objs[:keep])
        del objs

    # ----------------------------------------------------------- calls
    def prepare(self, call):
        """Materialise the inputs of a call; returns (thunk, meta).  May be
        invoked twice (census child and real run): everything it creates is
        fresh each time."""
        from sim.refserver import materialise_options
        import propka.run as run
        kind = call['kind']
        ins = [self.inputs[i] for i in call['inputs']]
        ppath = self.param_path(call.get('param'))
        opts = materialise_options(call['options'], ppath)
        suffix = call.get('suffix', '.pdb')
        if kind == 'single_path':
            inp = ins[0]
            pk = call['path_kind']
            if pk == 'rel':
                fname = inp['stem'] + suffix
                self.write_file(os.path.join(self.cwd, fname), inp['text'])
                arg = fname if not call.get('dotslash') else './' + fname
            elif pk in ('dotdot', 'symlink', 'symdir'):
                # the same file addressed through '..', a symbolic link to the
                # file, or a symbolic link to a directory followed by '..'
                d = self.new_input_dir()
                real = os.path.join(d, inp['stem'] + suffix)
                self.write_file(real, inp['text'])
                os.makedirs(os.path.join(d, 'sub'), exist_ok=True)
                if pk == 'dotdot':
                    arg = os.path.join(d, 'sub', '..', inp['stem'] + suffix)
                elif pk == 'symlink':
                    ld = self.new_input_dir()
                    arg = os.path.join(ld, inp['stem'] + suffix)
                    os.symlink(real, arg)
                else:
                    self.nlink = getattr(self, 'nlink', 0) + 1
                    link = os.path.join(self.cwd, 'lnk%03d' % self.nlink)
                    os.symlink(os.path.join(d, 'sub'), link)
                    arg = os.path.join(os.path.basename(link), '..', inp['stem'] + suffix)
            elif pk == 'zip':
                d = self.new_input_dir()
                zp = os.path.join(d, 'arch.zip')
                member = ('data/' if call.get('zip_sub') else '') + inp['stem'] + suffix
                with zipfile.ZipFile(self._zip_target(zp), 'w') as zf:
                    zf.writestr(member, inp['text'])
                arg = os.path.join(zp, member)
            else:
                d = self.new_input_dir()
                arg = os.path.join(d, inp['stem'] + suffix)
                self.write_file(arg, inp['text'])
                if pk == 'Path':
                    import pathlib
                    arg = pathlib.Path(arg)
            wp = call.get('write_pka', True)
            return (lambda: run.single(arg, opts, write_pka=wp)), {'returns': True}
        if kind in ('single_stream', 'pipeline'):
            inp = ins[0]
            sk = call['stream_kind']
            if sk == 'stringio':
                stream = io.StringIO(inp['text'])
            elif sk == 'textio':
                stream = io.TextIOWrapper(io.BytesIO(inp['text'].encode('utf-8')),
                                          encoding='utf-8')
            elif sk == 'file':
                d = self.new_input_dir()
                p = os.path.join(d, 'blob.txt')
                self.write_file(p, inp['text'])
                stream = open(p, 'r')
            elif sk == 'unseekable':
                stream = self.seams.UnseekableStream(inp['text'])
            else:
                raise RuntimeError('stream kind ' + sk)
            name = inp['stem'] + suffix
            wp = call.get('write_pka', True)
            if kind == 'single_stream':
                return (lambda: run.single(name, opts, stream=stream, write_pka=wp)), {'returns': True}

            def pipeline():
                from propka.lib import loadOptions
                from propka.input import read_parameter_file, read_molecule_file
                from propka.parameters import Parameters
                from propka.molecular_container import MolecularContainer
                args = loadOptions(list(opts) + [name])
                parameters = read_parameter_file(args.parameters, Parameters())
                mol = MolecularContainer(parameters, args)
                mol = read_molecule_file(name, mol, stream=stream)
                mol.calculate_pka()
                if wp:
                    mol.write_pka()
                return mol
            return pipeline, {'returns': True}
        if kind == 'steps':
            return self.prepare_steps(call), {'returns': True}
        if kind == 'cli':
            paths = []
            for n, inp in enumerate(ins):
                if call.get('cli_rel'):
                    fname = inp['stem'] + suffix
                    self.write_file(os.path.join(self.cwd, fname), inp['text'])
                    paths.append(fname)
                else:
                    d = self.new_input_dir()
                    p = os.path.join(d, inp['stem'] + suffix)
                    self.write_file(p, inp['text'])
                    paths.append(p)
            argv = ['propka3'] + list(opts)
            # processing order is: -f files in order, then the positional one
            for p in paths[:-1]:
                argv += ['-f', p]
            argv.append(paths[-1])

            def cli():
                old = sys.argv
                sys.argv = argv
                try:
                    run.main()
                finally:
                    sys.argv = old
                return None
            return cli, {'returns': False}
        raise RuntimeError('call kind ' + kind)

    def prepare_steps(self, call):
        """Step-level API on several molecules; call['schedule'] says whose
        next step runs.  A molecule whose step raises an ordinary exception
        is finished with that exception; the others go on."""
        from sim.refserver import materialise_options
        mols = []
        for m in call['mols']:
            inp = self.inputs[m['input']]
            name = inp['stem'] + '.pdb'
            src = None
            if m['stream_kind'] == 'stringio':
                src = io.StringIO(inp['text'])
            elif m['stream_kind'] == 'textio':
                src = io.TextIOWrapper(io.BytesIO(inp['text'].encode('utf-8')), encoding='utf-8')
            else:
                d = self.new_input_dir()
                name = os.path.join(d, inp['stem'] + '.pdb')
                self.write_file(name, inp['text'])
            mols.append({'spec': m, 'name': name, 'stream': src, 'step': 0, 'mol': None,
                         'exc': None, 'opts': materialise_options(m['options'], self.param_path(m.get('param')))})
        shared = {}

        def advance(st):
            from propka.lib import loadOptions
            from propka.input import read_parameter_file, read_molecule_file
            from propka.parameters import Parameters
            from propka.molecular_container import MolecularContainer
            k = st['step']
            st['step'] = k + 1
            if k == 0:
                st['args'] = loadOptions(list(st['opts']) + [st['name']])
            elif k == 1:
                key = st['spec'].get('param')
                if call.get('share_parameters') and key in shared:
                    st['parameters'] = shared[key]
                else:
                    st['parameters'] = read_parameter_file(st['args'].parameters, Parameters())
                    shared[key] = st['parameters']
            elif k == 2:
                st['mol'] = MolecularContainer(st['parameters'], st['args'])
            elif k == 3:
                st['mol'] = read_molecule_file(st['name'], st['mol'], stream=st['stream'])
            elif k == 4:
                st['mol'].calculate_pka()
            elif k == 5 and st['spec'].get('write_pka', True):
                st['mol'].write_pka()

        def run():
            for idx in call['schedule']:
                st = mols[idx]
                if st['exc'] is not None:
                    continue
                try:
                    advance(st)
                except OSError:
                    raise
                except Exception as err:
                    if self.files is not None and self.files.fired:
                        raise     # an injected fault in disguise aborts the call
                    st['exc'] = err
            return [st['exc'] if st['exc'] is not None else st['mol'] for st in mols]
        return run

    def _zip_target(self, path):
        # zipfile opens through io.open (possibly proxied): fine either way
        return path

    def invoke(self, thunk):
        """Run the call; returns ('ok', value) or ('exc', exception)."""
        sink = Sink()
        old_out = sys.stdout
        sys.stdout = sink
        try:
            try:
                return 'ok', thunk()
            except self.seams.SimCrash as err:
                return 'crash', err
            except Exception as err:
                return 'exc', err
        finally:
            sys.stdout = old_out

    def observe(self, status, value, before):
        from sim import record
        if status == 'ok' and isinstance(value, list):
            out = {'containers': []}
            for v in value:
                if isinstance(v, Exception):
                    out['containers'].append(record.exc_record(v))
                else:
                    out['containers'].append({'container': record.container_record(v)})
            out['pka_files'] = record.read_pka_files(self.cwd, before)
            return out
        if status == 'ok':
            out = {}
            if value is not None:
                out['container'] = record.container_record(value)
            out['pka_files'] = record.read_pka_files(self.cwd, before)
            return out
        if status == 'crash':
            return {'crash': str(value)}
        out = record.exc_record(value)
        out['pka_files'] = record.read_pka_files(self.cwd, before)
        return out

    def expected(self, call):
        """Reference observation for a call, from the per-input references."""
        from sim import record
        exp = {'pka_files': {}}
        ins = call['inputs']
        if call['kind'] == 'steps':
            exp['containers'] = []
        for n, iid in enumerate(ins):
            inp = self.inputs[iid]
            spec = call['mols'][n] if call['kind'] == 'steps' else call
            key = hashlib.sha256(json.dumps(
                [inp['text'], inp['stem'], spec['options'], spec.get('param'),
                 call.get('suffix', '.pdb')]).encode()).hexdigest()
            ref = self.ref.request(key, inp['text'], inp['stem'], spec['options'],
                                   self.params.get(spec.get('param')) if spec.get('param') else None,
                                   call.get('suffix', '.pdb'))
            if 'slow' in ref:
                return {'slow': True}
            if call['kind'] == 'steps':
                self.ref_digests.append([len(self.events), iid, record.digest(ref), key[:16]])
                if 'exc' in ref:
                    exp['containers'].append({'exc': ref['exc']})
                elif spec.get('write_pka', True) and 'write_exc' in ref:
                    exp['containers'].append({'exc': ref['write_exc']})
                    exp['pka_files'].update(ref['pka_files'])
                else:
                    exp['containers'].append({'container': ref['container']})
                    if spec.get('write_pka', True):
                        exp['pka_files'].update(ref['pka_files'])
                continue
            self.ref_digests.append([len(self.events), iid, record.digest(ref), key[:16]])
            if 'exc' in ref:
                exp['exc'] = ref['exc']
                break
            if call.get('write_pka', True) and 'write_exc' in ref:
                exp['exc'] = ref['write_exc']
                exp['pka_files'].update(ref['pka_files'])
                break
            exp['pka_files'].update(ref['pka_files'])
            if call['kind'] != 'cli':
                exp['container'] = ref['container']
        self.stats['refs'] = self.ref.computed
        return exp

    def compare(self, call, obs, exp):
        from sim import record
        if call['kind'] == 'steps' and 'containers' in obs:
            return record.first_diff({'containers': exp['containers'], 'pka_files': exp['pka_files']},
                                     {'containers': obs['containers'], 'pka_files': obs['pka_files']})
        if 'exc' in exp or 'exc' in obs:
            a = {'exc': exp.get('exc')}
            b = {'exc': obs.get('exc')}
            d = record.first_diff(a, b)
            if d:
                return d
            if call['kind'] == 'cli':
                return record.first_diff({'pka_files': exp['pka_files']},
                                         {'pka_files': obs['pka_files']})
            return None
        a, b = {}, {}
        if call['kind'] != 'cli':
            a['container'] = exp.get('container')
            b['container'] = obs.get('container')
        if call.get('write_pka', True):
            a['pka_files'] = exp['pka_files']
            b['pka_files'] = obs['pka_files']
        else:
            a['pka_files'] = {}
            b['pka_files'] = obs['pka_files']
        return record.first_diff(a, b)

    # ----------------------------------------------------------- census
    def census(self, call, track_state=False):
        """Fault-free pass of the same call in a forked child: counts file
        operations and per-function line events so that a fault lands inside
        the operation.  The parent's state is untouched; .pka files the child
        wrote are rolled back."""
        from sim import refserver
        saved = {}
        for n in sorted(os.listdir(self.cwd)):
            if n.endswith('.pka'):
                with self.real_open(os.path.join(self.cwd, n), 'rb') as fh:
                    saved[n] = fh.read()
        cpath = os.path.join(self.scratch, 'census.bin')
        try:
            os.unlink(cpath)
        except OSError:
            pass
        pid = os.fork()
        if pid == 0:
            try:
                self.nfile += 500
                self.nlink = getattr(self, 'nlink', 0) + 500
                if self.files is not None:
                    self.files.reset_counts()
                    self.files.disarm()
                thunk, _ = self.prepare(call)
                self.tracer.start(None, state=self.state_probe if track_state else None)
                try:
                    self.invoke(thunk)
                finally:
                    self.tracer.stop()
                counts = sorted(([k[0], k[1], v] for k, v in self.tracer.counts.items()))
                data = json.dumps({'n': self.files.n if self.files else {},
                                   'funcs': counts, 'windows': self.tracer.windows,
                                   'events': self.tracer.events}).encode()
                refserver.write_blob(cpath, data)
            finally:
                os._exit(0)
        # real-time limit for the (traced, hence slower) census pass; the time
        # module is simulated in this process, so real time is read from
        # os.times() and real waiting is done with select()
        import select
        t0 = os.times().elapsed
        timed_out = False
        while True:
            done, _st = os.waitpid(pid, os.WNOHANG)
            if done:
                break
            if os.times().elapsed - t0 > CENSUS_TIME_LIMIT:
                try:
                    os.kill(pid, 9)
                except OSError:
                    pass
                os.waitpid(pid, 0)
                timed_out = True
                break
            select.select([], [], [], 0.01 if os.times().elapsed - t0 < 1 else 0.2)
        try:
            buf = b'' if timed_out else refserver.read_blob(cpath)
        except OSError:
            buf = b''
        for n in sorted(os.listdir(self.cwd)):
            p = os.path.join(self.cwd, n)
            if n.endswith('.pka'):
                if n not in saved:
                    os.unlink(p)
                else:
                    with self.real_open(p, 'wb') as fh:
                        fh.write(saved[n])
        # input files/dirs the child created are harmless duplicates
        self.stats['census_runs'] += 1
        if timed_out:
            self.stats['census_timeouts'] = self.stats.get('census_timeouts', 0) + 1
            return None
        if not buf:
            raise RuntimeError('census child produced nothing')
        return json.loads(buf.decode())

    def arm_fault(self, fault, call):
        """Returns a dict describing what was armed (or None)."""
        kind = fault['kind']
        self.stats['faults_armed'][kind] = self.stats['faults_armed'].get(kind, 0) + 1
        if kind == 'seek-fail':
            return {'kind': kind}
        if 'rank' in fault:
            # sweep: the same subject call is crashed rank by rank; one census
            # of it serves the whole sweep
            from sim import record
            key = record.digest(call)
            if key not in self.census_cache:
                self.census_cache[key] = self.census(call, track_state=True)
                self.stats['state_windows'] = self.stats.get('state_windows', 0) + len(
                    (self.census_cache[key] or {}).get('windows', []))
            cen = self.census_cache[key]
            if cen is None:
                return None
            wins = [w for w in cen.get('windows', []) if w[1] > w[0]]
            if wins and fault.get('u_win', 1.0) < 0.7:
                # aim into in-flight state: an interval during which process-
                # lifetime state differs from its value at the start of the call
                w = wins[fault['rank'] % len(wins)]
                n = w[0] + int(fault['u_ord'] * (w[1] - w[0]))
                self.stats['aimed_crashes'] = self.stats.get('aimed_crashes', 0) + 1
                return {'kind': 'crash', 'target': None, 'target_global': n}
        else:
            cen = self.census(call)
            if cen is None:
                return None
        if kind == 'crash':
            funcs = [f for f in cen['funcs'] if f[2] > 0]
            if not funcs:
                return None
            if 'rank' in fault:     # systematic sweep over executed functions
                f = funcs[fault['rank'] % len(funcs)]
            else:
                f = funcs[int(fault['u_func'] * len(funcs)) % len(funcs)]
            ordinal = int(fault['u_ord'] * f[2]) % f[2]
            return {'kind': 'crash', 'target': ((f[0], f[1]), ordinal)}
        if self.files is None:
            return None
        counter = {'open-fail': 'open', 'read-fail': 'read',
                   'write-torn': 'write', 'close-fail': 'close'}[kind]
        n = cen['n'].get(counter, 0)
        if n <= 0:
            return None
        k = int(fault['u'] * n) % n
        arg = None
        if kind == 'open-fail':
            errs = self.seams.FileLayer.OPEN_ERRNOS
            arg = errs[int(fault.get('u2', 0) * len(errs)) % len(errs)]
        elif kind == 'write-torn':
            arg = fault.get('u2', 0.5)
        return {'kind': kind, 'k': k, 'arg': arg}

    # ----------------------------------------------------------- steps
    def probe_heap(self, tag):
        if os.environ.get('VERIF_HEAP_PROBES'):
            self.probes.append([tag, id(object()), id([None] * 3), id({'a': 1}),
                                id(bytearray(700)), id(bytearray(70000))])

    def run_step(self, i, step):
        from sim import record
        self.probe_heap('start%d' % i)
        if self.addr is not None and self.mode.get('addr') == 'native':
            self.addr.log = []
            self.addr_logs.append(self.addr.log)
        for p in step.get('perturb', []):
            self.perturb(p, step)
        self.probe_heap('perturbed%d' % i)
        call = step['call']
        fault = step.get('fault')
        armed = None
        # the reference first: if it gives up (too slow), neither the census
        # pass nor the call itself is run
        exp = self.expected(call)
        if not exp.get('slow') and fault is not None:
            if fault['kind'] == 'seek-fail':
                call = dict(call)
                call['stream_kind'] = 'unseekable'
            armed = self.arm_fault(fault, call)
        if exp.get('slow'):
            # the reference gave up (see refserver.REF_TIME_LIMIT): the call
            # would take as long here; it is skipped, not compared
            self.stats['skipped_slow'] = self.stats.get('skipped_slow', 0) + 1
            self.events.append({'i': i, 'step': record.digest(step), 'fired': None,
                                'orders': None, 'status': 'skipped', 'outcome': None,
                                'verdict': 'skipped-slow'})
            return True
        self.probe_heap('expected%d' % i)
        if self.files is not None:
            self.files.reset_counts()
            self.files.disarm()
        thunk, meta = self.prepare(call)
        self.probe_heap('prepared%d' % i)
        if self.files is not None:
            self.files.reset_counts()
            if armed and armed['kind'] in ('open-fail', 'read-fail', 'write-torn', 'close-fail'):
                self.files.arm(armed['kind'], armed['k'], armed['arg'])
        before = record.snapshot_dir(self.cwd)
        if self.probe is not None:
            self.probe.take()
        tracing = armed is not None and armed['kind'] == 'crash'
        if tracing:
            self.tracer.start(armed['target'], armed.get('target_global'))
        try:
            status, value = self.invoke(thunk)
        finally:
            if tracing:
                self.tracer.stop()
                self.stats['line_events'] += self.tracer.events
        fired = None
        if tracing and self.tracer.fired:
            fired = dict(self.tracer.fired, kind='crash')
            site = [fired['file'], fired['func']]
            if site not in self.stats['crash_sites']:
                self.stats['crash_sites'].append(site)
        if self.files is not None and self.files.fired:
            fired = self.files.fired
        if armed and fired is None:
            self.stats.setdefault('unfired', []).append(
                [armed['kind'], str(armed.get('target') or armed.get('k')), status])
        if armed and armed['kind'] == 'seek-fail' and status == 'exc':
            fired = {'kind': 'seek-fail'}
        if self.files is not None:
            self.files.disarm()
        if fired:
            k = fired['kind']
            self.stats['faults_fired'][k] = self.stats['faults_fired'].get(k, 0) + 1
            self.any_fault_fired = True
        self.probe_heap('invoked%d' % i)
        obs = self.observe(status, value, before)
        value = None
        self.probe_heap('observed%d' % i)
        orders = self.probe.take() if self.probe is not None else []
        for o in orders:
            dg = record.digest(o)
            if len(o) > 1 and dg not in self.stats['orders']:
                self.stats['orders'].append(dg)
        self.stats['calls'] += 1
        ck = call['kind']
        self.stats['call_kinds'][ck] = self.stats['call_kinds'].get(ck, 0) + 1
        verdict = 'ok'
        diff = None
        if fired and status in ('exc', 'crash'):
            verdict = 'fault-propagated'
        else:
            diff = self.compare(call, obs, exp)
            self.stats['compared'] += 1
            if diff:
                verdict = 'MISMATCH'
        trivial = (self.prior_calls == 0 and not step.get('perturb')
                   and fault is None)
        self.stats['cases'].append({
            'sig': [ck, call.get('path_kind') or call.get('stream_kind') or 'argv',
                    step.get('optsig', ''), step.get('family', ''),
                    min(self.prior_calls, 3), bool(fired),
                    len(call['inputs'])],
            'trivial': trivial})
        self.prior_calls += 1
        self.probes.append([id(object()), id([None] * 3), id({'a': 1})])
        self.events.append({
            'i': i, 'step': record.digest(step), 'fired': fired,
            'orders': record.digest(orders), 'status': status,
            'outcome': record.digest(obs), 'verdict': verdict})
        if diff:
            path, e, o = diff
            self.mismatch = {
                'step': i, 'path': path, 'class': [ck if ck == 'cli' else 'api',
                                                  record.diff_kind(path)],
                'expected': _clip(e), 'observed': _clip(o),
                'call': {k: v for k, v in call.items()},
                'after_fault': self.any_fault_fired}
            if self.addr_logs:
                self.mismatch['native_address_logs'] = self.addr_logs
            return False
        return True

    def run(self):
        self.setup()
        try:
            for i, step in enumerate(self.job['steps']):
                if not self.run_step(i, step):
                    break
        finally:
            self.ref.close()
        if self.clock is not None:
            self.stats['days'] = self.clock.days_covered
        if self.idseam is not None:
            self.idseam.uninstall()
            # opportunities / addresses of dead objects actually handed out again
            self.stats['faults_armed']['id_address_reuse'] = self.idseam.assigned
            self.stats['faults_fired']['id_address_reuse'] = self.idseam.recycled
        from sim import record
        return {
            'seed': self.job.get('seed'),
            'events': self.events,
            'fingerprint': hashlib.sha256(record.canon(self.events).encode()).hexdigest()[:20],
            'outcomes': [e['outcome'] for e in self.events],
            'mismatch': self.mismatch,
            'ref_digests': self.ref_digests,
            'probes': self.probes,
            'stats': self.stats,
            'notes': self.notes,
        }


def oneshot(job):
    """A true one-shot: this fresh interpreter computes one reference itself
    (used to cross-check the fork-server references)."""
    from sim import refserver, record
    _import_propka()
    os.makedirs(job['scratch'], exist_ok=True)
    old = sys.stdout
    sys.stdout = Sink()
    try:
        ref = refserver.compute_reference(job['oneshot'], job['scratch'])
    finally:
        sys.stdout = old
    return {'digest': record.digest(ref), 'seed': job.get('seed')}


def _clip(v, n=400):
    s = v if isinstance(v, str) else json.dumps(v, sort_keys=True)
    return s if len(s) <= n else s[:n] + '...<%d more>' % (len(s) - n)


def main():
    import faulthandler
    faulthandler.enable()
    from sim import refserver
    jobpath = sys.argv[1]
    job = json.loads(refserver.read_blob(jobpath).decode())
    tmo = job.get('timeout', 0)
    if tmo:
        faulthandler.dump_traceback_later(tmo, exit=True)
    devnull = os.open(os.devnull, os.O_WRONLY)
    os.dup2(devnull, 1)
    try:
        if 'oneshot' in job:
            res = oneshot(job)
        else:
            res = Executor(job).run()
    except BaseException:
        res = {'harness_error': traceback.format_exc(), 'seed': job.get('seed')}
    finally:
        try:
            os.chdir('/')
            shutil.rmtree(job['scratch'], ignore_errors=True)
        except Exception:
            pass
    refserver.write_blob(jobpath + '.out', json.dumps(res).encode())


if __name__ == '__main__':
    main()
