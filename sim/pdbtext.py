"""Minimal fixed-column PDB text model used to build workloads and faulted files.

Nothing here imports propka: the harness must be able to describe an input
independently of the code under test.
"""
import math
import hashlib

ATOM_TAGS = ('ATOM  ', 'HETATM')


def is_atom_line(line):
    return line[0:6] in ATOM_TAGS


class Rec:
    """One ATOM/HETATM record, editable by column."""
    __slots__ = ('line',)

    def __init__(self, line):
        line = line.rstrip('\n')
        if len(line) < 80:
            line = line + ' ' * (80 - len(line))
        self.line = line

    tag = property(lambda s: s.line[0:6])
    name = property(lambda s: s.line[12:16])
    altloc = property(lambda s: s.line[16])
    resname = property(lambda s: s.line[17:20])
    chain = property(lambda s: s.line[21])
    resnum = property(lambda s: s.line[22:26])
    icode = property(lambda s: s.line[26])
    x = property(lambda s: float(s.line[30:38]))
    y = property(lambda s: float(s.line[38:46]))
    z = property(lambda s: float(s.line[46:54]))

    @property
    def xyz(self):
        return (self.x, self.y, self.z)

    @property
    def reskey(self):
        return (self.chain, self.resnum, self.icode, self.resname)

    @property
    def is_hydrogen(self):
        """Hydrogen by the PDB name-column convention propka itself uses."""
        import string
        el = self.line[12:14].strip().strip(string.digits)
        if len(self.name.strip()) == 4 and el:
            el = el[0]
        return el.upper() == 'H'

    def _put(self, a, b, text):
        assert len(text) == b - a, (a, b, text)
        self.line = self.line[:a] + text + self.line[b:]

    def with_xyz(self, x, y, z):
        r = Rec(self.line)
        r._put(30, 54, '{0:8.3f}{1:8.3f}{2:8.3f}'.format(x, y, z))
        return r

    def with_chain(self, c):
        r = Rec(self.line)
        r._put(21, 22, c)
        return r

    def with_altloc(self, c):
        r = Rec(self.line)
        r._put(16, 17, c)
        return r

    def with_resname(self, n):
        r = Rec(self.line)
        r._put(17, 20, n)
        return r

    def with_resnum(self, n):
        r = Rec(self.line)
        r._put(22, 26, '{0:>4d}'.format(n))
        return r

    def with_serial(self, n):
        r = Rec(self.line)
        r._put(6, 11, '{0:>5d}'.format(n % 100000))
        return r

    def with_name(self, n, element=None):
        r = Rec(self.line)
        r._put(12, 16, n)
        if element is not None:
            r._put(76, 78, '{0:>2s}'.format(element))
        return r

    def with_tag(self, t):
        r = Rec(self.line)
        r._put(0, 6, t)
        return r

    def text(self):
        return self.line.rstrip() + '\n'


def parse(text):
    """Return list of items: ('A', Rec) for atom records, ('L', str) otherwise
    (only TER/MODEL/ENDMDL/END lines are kept; everything else is content the
    model does not use)."""
    items = []
    for line in text.splitlines():
        tag = line[0:6].ljust(6)
        if tag in ATOM_TAGS:
            items.append(('A', Rec(line)))
        elif tag.strip() in ('TER', 'MODEL', 'ENDMDL', 'END'):
            items.append(('L', line.rstrip()))
    return items


def render(items):
    out = []
    for kind, it in items:
        # record names are six columns wide (propka compares 'TER   ')
        out.append(it.text() if kind == 'A' else it.ljust(6) + '\n')
    return ''.join(out)


def residues(items):
    """Ordered list of (reskey, [indices into items]) for consecutive runs."""
    res = []
    last = None
    for i, (kind, it) in enumerate(items):
        if kind != 'A':
            last = None
            continue
        k = it.reskey
        if k != last:
            res.append((k, []))
            last = k
        res[-1][1].append(i)
    return res


def dist2(a, b):
    return (a[0]-b[0])**2 + (a[1]-b[1])**2 + (a[2]-b[2])**2


def det_unit(*key):
    """Deterministic pseudo-random floats in [0,1) from a key (no PRNG state)."""
    h = hashlib.sha256(repr(key).encode()).digest()
    return [int.from_bytes(h[i:i+4], 'big') / 2**32 for i in range(0, 32, 4)]


def unit(v):
    n = math.sqrt(sum(c*c for c in v)) or 1.0
    return tuple(c/n for c in v)


def add(a, b, s=1.0):
    return tuple(x + s*y for x, y in zip(a, b))


def sub(a, b):
    return tuple(x - y for x, y in zip(a, b))


def renumber_serials(items):
    n = 0
    out = []
    for kind, it in items:
        if kind == 'A':
            n += 1
            out.append(('A', it.with_serial(n)))
        else:
            out.append((kind, it))
    return out
