"""Observation record of one propka call (DESIGN §3.8).

Everything is reduced to JSON-able primitives; floats are kept as repr()
strings so that comparison is bit-exact and replay files are faithful.
"""
import hashlib
import json
import os
import re


def _f(v):
    if isinstance(v, float):
        return repr(v)
    if isinstance(v, (int, str, bool)) or v is None:
        return v
    return repr(v)


def _label(g):
    return None if g is None else getattr(g, 'label', repr(g))


def group_record(g):
    dets = {}
    for type_ in sorted(getattr(g, 'determinants', {}).keys()):
        dets[type_] = [[getattr(d, 'label', None), _f(getattr(d, 'value', None))]
                       for d in g.determinants[type_]]
    return {
        'label': getattr(g, 'label', None),
        'type': getattr(g, 'type', None),
        'residue_type': getattr(g, 'residue_type', None),
        'titratable': getattr(g, 'titratable', None),
        'charge': _f(getattr(g, 'charge', None)),
        'pka': _f(getattr(g, 'pka_value', None)),
        'model_pka': _f(getattr(g, 'model_pka', None)),
        'energy_volume': _f(getattr(g, 'energy_volume', None)),
        'energy_local': _f(getattr(g, 'energy_local', None)),
        'buried': _f(getattr(g, 'buried', None)),
        'num_volume': _f(getattr(g, 'num_volume', None)),
        'num_local': _f(getattr(g, 'num_local', None)),
        'centre': [_f(getattr(g, 'x', None)), _f(getattr(g, 'y', None)),
                   _f(getattr(g, 'z', None))],
        'determinants': dets,
        # membership only: the order of these internal lists is not a result
        'cov': sorted(str(_label(o)) for o in getattr(g, 'covalently_coupled_groups', [])),
        'noncov': sorted(str(_label(o)) for o in getattr(g, 'non_covalently_coupled_groups', [])),
        'coupled_titrating_group': _label(getattr(g, 'coupled_titrating_group', None)),
        'ccc': getattr(g, 'common_charge_centre', None),
    }


def container_record(mol):
    """Record of a returned MolecularContainer."""
    rec = {'conformation_names': list(mol.conformation_names), 'conf': {}}
    names = list(mol.conformation_names)
    if 'AVR' in mol.conformations and 'AVR' not in names:
        names.append('AVR')
    for name in names:
        conf = mol.conformations[name]
        hyd = []
        for a in getattr(conf, 'atoms', []):
            if getattr(a, 'element', None) == 'H':
                hyd.append([a.name, a.res_name, a.res_num, a.chain_id,
                            _f(a.x), _f(a.y), _f(a.z)])
        rec['conf'][name] = {
            'groups': [group_record(g) for g in conf.groups],
            'natoms': len(getattr(conf, 'atoms', [])),
            'hydrogens': hyd,
            'chains': list(getattr(conf, 'chains', [])),
            'nccg': getattr(conf, 'non_covalently_coupled_groups', None),
        }
    grid = tuple(getattr(mol.options, 'grid', (0.0, 14.0, 0.1)))
    try:
        rec['pi'] = [_f(v) for v in mol.get_pi()]
    except Exception as err:  # noqa - observation must not hide the call's result
        rec['pi'] = ['EXC', type(err).__name__]
    try:
        rec['charge_profile'] = [[_f(v) for v in row]
                                 for row in mol.get_charge_profile(grid=grid)]
    except Exception as err:
        rec['charge_profile'] = ['EXC', type(err).__name__]
    try:
        prof, opt, r80, stab = mol.get_folding_profile(grid=grid)
        rec['folding_profile'] = {
            'profile': [[_f(a), _f(b)] for a, b in prof],
            'opt': [_f(v) for v in opt], 'r80': [_f(v) for v in r80],
            'stab': [_f(v) for v in stab]}
    except Exception as err:
        rec['folding_profile'] = ['EXC', type(err).__name__]
    return rec


def strip_date_line(text):
    """C03 exempts 'the date line': the first line (version + date)."""
    nl = text.find('\n')
    return text[nl + 1:] if nl >= 0 else ''


OLD_STAMP = 1000000000  # 2001-09-09: any file written during a call is newer


def snapshot_dir(path):
    """Stamp every existing *.pka with an old mtime and return {name: inode}.
    A file is 'written by the call' iff afterwards it is new or its mtime is
    no longer the stamp - independent of timestamp granularity."""
    out = {}
    try:
        names = sorted(os.listdir(path))
    except OSError:
        return out
    for n in names:
        p = os.path.join(path, n)
        if n.endswith('.pka') and os.path.isfile(p):
            try:
                os.utime(p, (OLD_STAMP, OLD_STAMP))
            except OSError:
                pass
            out[n] = True
    return out


def read_pka_files(path, before):
    """Texts (minus date line) of every *.pka created or modified since
    snapshot_dir()."""
    out = {}
    try:
        names = sorted(os.listdir(path))
    except OSError:
        return out
    for n in names:
        p = os.path.join(path, n)
        if not (n.endswith('.pka') and os.path.isfile(p)):
            continue
        if n in before and int(os.stat(p).st_mtime) == OLD_STAMP:
            continue
        fd = os.open(p, os.O_RDONLY)
        try:
            data = b''
            while True:
                chunk = os.read(fd, 1 << 20)
                if not chunk:
                    break
                data += chunk
        finally:
            os.close(fd)
        out[n] = strip_date_line(data.decode('utf-8', errors='replace'))
    return out


_PATHISH = re.compile(r'\S*/')


def exc_record(err):
    msg = _PATHISH.sub('', str(err))
    return {'exc': [type(err).__name__, msg]}


def canon(obj):
    return json.dumps(obj, sort_keys=True, separators=(',', ':'))


def digest(obj):
    return hashlib.sha256(canon(obj).encode()).hexdigest()[:16]


def first_diff(a, b, path=''):
    """Path of the first difference between two records, with both values."""
    if type(a) is not type(b):
        return path or '.', a, b
    if isinstance(a, dict):
        for k in sorted(set(a) | set(b)):
            if k not in a or k not in b:
                return path + '/' + str(k), a.get(k, '<absent>'), b.get(k, '<absent>')
            d = first_diff(a[k], b[k], path + '/' + str(k))
            if d:
                return d
        return None
    if isinstance(a, list):
        for i, (x, y) in enumerate(zip(a, b)):
            d = first_diff(x, y, path + '/' + str(i))
            if d:
                return d
        if len(a) != len(b):
            return path + '/len', len(a), len(b)
        return None
    if a != b:
        return path or '.', a, b
    return None


def diff_kind(path):
    """Coarse class of a difference (used to keep the same violation class
    while minimising): the path with indices and labels removed."""
    parts = [p for p in path.split('/') if p and not p.isdigit()]
    keep = []
    for p in parts:
        if p in ('conf', 'groups', 'determinants', 'pka', 'pka_files', 'cov',
                 'noncov', 'exc', 'pi', 'charge_profile', 'folding_profile',
                 'hydrogens', 'container', 'len', 'coupled_titrating_group',
                 'sidechain', 'backbone', 'coulomb', 'label', 'centre'):
            keep.append(p)
    return '/'.join(keep[:3]) or 'other'
