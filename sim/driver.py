"""Driver-side plumbing: worker launch with a fixed environment, pools,
scratch handling, known findings, evidence writing."""
import json
import os
import shutil
import subprocess
import sys
import tempfile
import time
import uuid
from concurrent.futures import ThreadPoolExecutor

VERIF = os.path.dirname(os.path.dirname(os.path.abspath(__file__)))
REPO = os.environ.get('VERIF_REPO', '/repo')
PY = os.environ.get('VERIF_PYTHON', '/venv/bin/python')
OUT = os.environ.get('VERIF_OUT', VERIF)   # where evidence/ and replays/ go
NPROC = int(os.environ.get('VERIF_JOBS', '0')) or min(16, os.cpu_count() or 4)


class HarnessError(Exception):
    pass


_SETARCH = None


def setarch_prefix():
    """['setarch', '-R'] if address-space randomisation can be switched off."""
    global _SETARCH
    if _SETARCH is None:
        found = []
        exe = shutil.which('setarch')
        if exe:
            try:
                r = subprocess.run([exe, '-R', 'true'], capture_output=True, timeout=20)
                if r.returncode == 0:
                    found = [exe, '-R']
            except Exception:
                pass
        _SETARCH = found
    return _SETARCH


class Scratch:
    """Scratch root of fixed path length, removed on exit."""

    def __init__(self):
        base = os.environ.get('VERIF_TMP', tempfile.gettempdir())
        self.root = os.path.join(base, 'vsim-' + uuid.uuid4().hex[:8])
        os.makedirs(self.root)
        self.pycache = os.path.join(self.root, 'pyc')
        os.makedirs(self.pycache)

    def worker_dir(self):
        return os.path.join(self.root, 'w-' + uuid.uuid4().hex[:8])

    def close(self):
        shutil.rmtree(self.root, ignore_errors=True)


def worker_env(hashseed, scratch):
    return {
        'PATH': '/usr/local/bin:/usr/bin:/bin',
        'HOME': os.environ.get('HOME', '/root'),
        'PYTHONPATH': REPO + os.pathsep + VERIF,
        'PYTHONDONTWRITEBYTECODE': '1',
        'PYTHONPYCACHEPREFIX': scratch.pycache,
        'PYTHONHASHSEED': str(hashseed % (1 << 32)),
        'VERIF_REPO': REPO,
        'VERIF_CANONICAL_HOME': os.environ.get('HOME', '/root'),
        'LANG': 'C.UTF-8',
        'TMPDIR': scratch.root,
        **({'VERIF_HEAP_PROBES': '1'} if os.environ.get('VERIF_HEAP_PROBES') else {}),
    }


def warm_pycache(scratch):
    """Compile propka + harness once so that every worker *loads* bytecode
    (identical allocation history regardless of launch order)."""
    setarch_prefix()
    env = worker_env(0, scratch)
    env.pop('PYTHONDONTWRITEBYTECODE')
    code = ('import sim.worker, sim.refserver, sim.seams, sim.record, zipfile, pathlib\n'
            'sim.worker._import_propka()\n'
            'import propka.run\n')
    r = subprocess.run([PY, '-c', code], env=env, capture_output=True, text=True,
                       timeout=120, cwd='/')
    if r.returncode != 0:
        raise HarnessError('cannot import propka from %s:\n%s' % (REPO, r.stderr[-2000:]))
    for opt in ('1', '2'):      # byte code for python -O / -OO workers as well
        subprocess.run([PY, '-c', code], env=dict(env, PYTHONOPTIMIZE=opt), capture_output=True,
                       text=True, timeout=120, cwd='/')


def hashseed_for(seed):
    return (seed * 2654435761 + 12345) % (1 << 32)


def run_job(job, scratch, timeout=400, hashseed=None):
    """Execute one literal history in a fresh worker process."""
    job = dict(job)
    job['scratch'] = scratch.worker_dir()
    job['timeout'] = timeout
    hs = hashseed_for(job.get('seed') or 0) if hashseed is None else hashseed
    job_hs = job.get('hashseed')
    if job_hs is not None:
        hs = job_hs
    jobpath = job['scratch'] + '.job'
    with open(jobpath, 'w') as fh:
        json.dump(job, fh)
    cmd = setarch_prefix() + [PY, '-m', 'sim.worker', jobpath]
    env = worker_env(hs, scratch)
    if (job.get('mode') or {}).get('malloc'):
        env['PYTHONMALLOC'] = 'malloc'
    jenv = (job.get('mode') or {}).get('env')
    if jenv:
        for k, v in jenv.items():
            if k == 'home_decoys':
                continue
            env[k] = v if v != 'decoy' else job['scratch'] + '.home/propka.cfg'
        if jenv.get('home_decoys'):
            home = job['scratch'] + '.home'
            os.makedirs(os.path.join(home, '.config', 'propka'), exist_ok=True)
            for rel in ('.propka.cfg', 'propka.cfg', '.propkarc', '.config/propka/propka.cfg',
                        'protein_bonds.json'):
                with open(os.path.join(home, rel), 'w') as fh:
                    fh.write('version NoSuchVersion\nmodel_pkas ASP 9.99\n')
            env['HOME'] = home
            env['XDG_CONFIG_HOME'] = os.path.join(home, '.config')
    t0 = time.time()
    try:
        try:
            r = subprocess.run(cmd, stdin=subprocess.DEVNULL, env=env,
                               stdout=subprocess.DEVNULL, stderr=subprocess.PIPE, text=True,
                               errors='replace', timeout=timeout + 30, cwd='/')
        except subprocess.TimeoutExpired:
            return {'harness_error': 'worker timeout after %ds' % (timeout + 30),
                    'seed': job.get('seed')}
        if r.returncode != 0 or not os.path.exists(jobpath + '.out'):
            return {'harness_error': 'worker exit %s\n%s' % (r.returncode, r.stderr[-3000:]),
                    'seed': job.get('seed')}
        try:
            with open(jobpath + '.out') as fh:
                res = json.load(fh)
        except ValueError:
            return {'harness_error': 'unparsable worker output', 'seed': job.get('seed')}
    finally:
        shutil.rmtree(job['scratch'], ignore_errors=True)
        shutil.rmtree(job['scratch'] + '.home', ignore_errors=True)
        for pth in (jobpath, jobpath + '.out'):
            try:
                os.unlink(pth)
            except OSError:
                pass
    res['wall'] = time.time() - t0
    res['hashseed'] = hs
    return res


def pool_map(fn, items, jobs=None):
    with ThreadPoolExecutor(max_workers=jobs or NPROC) as ex:
        return list(ex.map(fn, items))


# ------------------------------------------------------------------ findings

def load_findings():
    p = os.path.join(VERIF, 'known_findings.json')
    try:
        with open(p) as fh:
            return json.load(fh)
    except FileNotFoundError:
        return {'findings': [], 'fixed': []}


def write_evidence(pid, ev):
    d = os.path.join(OUT, 'evidence')
    os.makedirs(d, exist_ok=True)
    p = os.path.join(d, pid + '.json')
    tmp = p + '.tmp'
    with open(tmp, 'w') as fh:
        json.dump(ev, fh, indent=1, sort_keys=True)
        fh.write('\n')
    os.replace(tmp, p)
    return p


def replay_path(pid, tag):
    d = os.path.join(OUT, 'replays')
    os.makedirs(d, exist_ok=True)
    return os.path.join(d, '%s-%s.json' % (pid, tag))
